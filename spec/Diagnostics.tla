----------------------------- MODULE Diagnostics -----------------------------
(***************************************************************************)
(* Layer A, property C13: eigenvalue-based texture and strain diagnostics  *)
(* (pydrex.diagnostics.symmetry_pgr, bingham_average, coaxial_index,       *)
(* finite_strain; pydrex.utils.angle_fse_simpleshear).                     *)
(*                                                                         *)
(* WHAT IS SPECIFIED (exact rationals, modules Rat / Mat3)                 *)
(*  * Orientation matrices are passive rotations: row r of a grain's       *)
(*    matrix is crystal axis r ("a","b","c" = rows 1,2,3) in the external  *)
(*    frame.  Scatter(list, r) = SUM_g v_g v_g^T with v_g = row r of       *)
(*    grain g, summed in list order.                                       *)
(*  * With eigenvalues l1 >= l2 >= l3 of the scatter matrix and N their    *)
(*    sum:  P = (l1-l2)/N,  G = 2(l2-l3)/N,  R = 3 l3/N.                   *)
(*  * Bingham mean axis = unit principal eigenvector (defined up to sign,  *)
(*    and only when l1 > l2).                                              *)
(*  * Coaxial index of the ordered axis pair (x, y), default ("b","a"):    *)
(*    1/2 (2 - P_x/(G_x+P_x) - G_y/(G_y+P_y)); defined iff neither         *)
(*    scatter matrix is isotropic (P+G # 0).                               *)
(*  * A lattice two-fold about crystal axis m negates the other two rows   *)
(*    of the orientation matrix; a rotation Q of the reference frame maps  *)
(*    every orientation matrix A to A.Q^T (each crystal axis v to Q.v).    *)
(*  * Finite strain of a deformation gradient F: B = F.F^T, largest        *)
(*    principal stretch minus one = sqrt(largest eigenvalue of B) - 1,     *)
(*    long axis = its eigenvector (up to sign, when that eigenvalue is     *)
(*    simple).                                                             *)
(*  * Simple shear in PyDRex's convention: velocity along e_d growing      *)
(*    along e_n, F = I + g e_d (x) e_n, "strain" = g/2 (strain rate times  *)
(*    time, the velocity gradient being 2 x strain rate).  The helper      *)
(*    angle_fse_simpleshear(strain) = degrees(atan(sqrt(strain^2+1) +      *)
(*    strain)) is the angle of the long axis from e_n towards e_d          *)
(*    (docstring: anticlockwise from X, i.e. n = X, d = Y).                *)
(*                                                                         *)
(* EXACT DOMAIN.  Grain multisets drawn from the octahedral group (every   *)
(* row is +-e_k) and then rotated by a rational frame rotation Q: the      *)
(* scatter matrix of row r is Q.diag(c_r).Q^T with integer counts c_r, so  *)
(* eigenvalues, P, G, R, the mean axis (+-Q e_k) and the coaxial index are *)
(* rationals.  F = Q.diag(s).Q^T.R' with rational s > 0: B = Q diag(s^2)   *)
(* Q^T.  Simple shear with tan(theta) = t rational, g = (t^2-1)/t: then    *)
(* sqrt(strain^2+1) = (t^2+1)/(2t) is rational and the closed form is the  *)
(* single leaf atan(t).                                                    *)
(*                                                                         *)
(* LEMMAS TLC CHECKS AS INVARIANTS over every enumerated case              *)
(*  PgrSumOne, PgrBounds, PgrRatios   all count triples with total <= 12   *)
(*  TexRotations     every emitted orientation matrix is in SO(3)          *)
(*  TexDiagonal      unrotated octahedral list: scatter = diag(counts)     *)
(*  TexFrame         Scatter(list.Q^T) = Q.Scatter(list).Q^T               *)
(*  TexPermTwofold   the permuted / two-folded list has the same scatter   *)
(*  TexGenerators    every adjacent transposition and every single-grain   *)
(*                   two-fold leaves the scatter unchanged (these generate *)
(*                   all permutations / two-fold patterns), N <= LemmaN    *)
(*  TexEigen         S.(Q e_k) = c_k (Q e_k), k = 1..3, trace S = N        *)
(*  TexPgr, TexCoax, TexMeanUnit   bounds / sum / unit norm of the         *)
(*                   expected values that are emitted                      *)
(*  FseEigen, FseRight, FseLeft, FseStretch, FseInvertible                 *)
(*  ShearEigen, ShearLargest, ShearClosedForm                              *)
(* and the emitted CASE records carry the expected values for the replay.  *)
(* cfgs: Diagnostics (quick), Diagnostics_thorough; DiagnosticsNeg is the  *)
(* non-vacuity control: TLC must refute NegColumnScatter (scatter built    *)
(* from matrix columns), which is deliberately false.                      *)
(*                                                                         *)
(* SECOND USE (cfg DiagnosticsJudge): the law for floating-point           *)
(* concretisations.  The scenario table (SCEN records) is enumerated here; *)
(* the harness draws floats inside each class, runs pydrex, logs integer   *)
(* deviation measures (units 1e-15, gaps in 1e-9) as ndjson; JudgeLog      *)
(* evaluates thresholds, and decides which clauses the quantifier excludes *)
(* (axis clauses when the two largest eigenvalues are within GapMargin,    *)
(* coaxial clauses when a scatter matrix is isotropic within IsoMargin).   *)
(***************************************************************************)
EXTENDS Mat3, SequencesExt, Json, IOUtils

CONSTANTS MaxN,        \* largest grain count of the enumerated textures
          LemmaN,      \* generator lemma is checked for lists up to this length
          FrameRots,   \* rational frame rotations Q of the texture family
          FseRots,     \* principal-axis rotations Q of the finite-strain family (denominators <= 3: 32-bit products)
          AuxSel,      \* which <<R', Q'>> pairs of AuxPairs are used
          Pats,        \* permutation / two-fold patterns
          StretchVals, \* principal stretches s_k
          TanVals      \* tan(theta) of the simple-shear family (rationals > 1)

VARIABLES phase, cs, out,
          jl           \* line counter of the judge (0 in the generator)
vars == <<phase, cs, out, jl>>

\* ------------------------------------------------------------------ small algebra
E(k) == [i \in I3 |-> IF i = k THEN QOne ELSE QZ]
Col(A, k) == [i \in I3 |-> A[i][k]]
Outer(v) == [i \in I3 |-> [j \in I3 |-> QMul(v[i], v[j])]]
Diag(d) == [i \in I3 |-> [j \in I3 |-> IF i = j THEN d[i] ELSE QZ]]
VScale(c, v) == [i \in I3 |-> QMul(c, v[i])]
VEval(v) == TLCEval([i \in I3 |-> v[i]])
QSq(a) == QMul(a, a)
Sum3(x) == QAdd(QAdd(x[1], x[2]), x[3])
Max3(x) == QMax(QMax(x[1], x[2]), x[3])
Min3(x) == QMin(QMin(x[1], x[2]), x[3])
SortDesc(x) == <<Max3(x), QSub(Sum3(x), QAdd(Max3(x), Min3(x))), Min3(x)>>
ArgMax(x) == {k \in I3 : x[k] = Max3(x)}
In01(a) == QLe(QZ, a) /\ QLe(a, QOne)
AxisName(r) == <<"a", "b", "c">>[r]

\* ------------------------------------------------------------------ the diagnostics
RECURSIVE ScatterUpTo(_, _, _)
ScatterUpTo(list, r, n) == IF n = 0 THEN MZero
                           ELSE MEval(MAdd(ScatterUpTo(list, r, n - 1), Outer(list[n][r])))
Scatter(list, r) == ScatterUpTo(list, r, Len(list))

\* eigenvalue triple (any order) -> <<P, G, R>>
PGR(lam) == LET l == SortDesc(lam)  n == Sum3(lam) IN
            <<QDiv(QSub(l[1], l[2]), n), QDiv(QMul(Q(2), QSub(l[2], l[3])), n), QDiv(QMul(Q(3), l[3]), n)>>
Anisotropic(pgr) == QAdd(pgr[1], pgr[2]) # QZ
PointShare(pgr) == QDiv(pgr[1], QAdd(pgr[1], pgr[2]))
GirdleShare(pgr) == QDiv(pgr[2], QAdd(pgr[1], pgr[2]))
Coaxial(pgr1, pgr2) == QMul(QHalf, QSub(QSub(Q(2), PointShare(pgr1)), GirdleShare(pgr2)))

\* lattice two-fold about crystal axis m (m = 0: identity)
TwoFold(m, A) == [i \in I3 |-> [j \in I3 |-> IF m = 0 \/ i = m THEN A[i][j] ELSE QNeg(A[i][j])]]
\* rotation Q of the reference frame
Reframe(A, Qm) == MMul(A, MT(Qm))
\* Rat.QAdd multiplies the two denominators before reducing; products of deformation gradients have
\* denominators up to 243^2, so the finite-strain family adds over the least common denominator
QAddL(a, b) == LET g == GCD(a[2], b[2]) IN QNorm(a[1] * (b[2] \div g) + b[1] * (a[2] \div g), (a[2] \div g) * b[2])
MMulL(A, B) == [i \in I3 |-> [j \in I3 |-> QAddL(QAddL(QMul(A[i][1], B[1][j]), QMul(A[i][2], B[2][j])), QMul(A[i][3], B[3][j]))]]
LeftCG(F) == MEval(MMulL(F, MT(F)))

\* ------------------------------------------------------------------ exact texture family
Triples(M) == {c \in (0..M) \X (0..M) \X (0..M) : c[1] + c[2] + c[3] >= 1 /\ c[1] + c[2] + c[3] <= M}
\* the 8 octahedral rotations whose row r is +-e_k, in a fixed order
OctaTab == [rk \in I3 \X I3 |-> SetToSeq({MEval(O) : O \in {X \in OctaRots : X[rk[1]][rk[2]] # QZ}})]
ClassOf(c, p) == IF p <= c[1] THEN 1 ELSE IF p <= c[1] + c[2] THEN 2 ELSE 3
\* unrotated list: c[k] grains whose row `row` is +-e_k, cycling through the 8 candidates
OctaList(c, row) == [p \in 1..(c[1] + c[2] + c[3]) |-> OctaTab[<<row, ClassOf(c, p)>>][((p + ClassOf(c, p)) % 8) + 1]]
CountsOf(list, r) == [k \in I3 |-> Cardinality({p \in 1..Len(list) : list[p][r][k] # QZ})]
CountsQ(cn) == [k \in I3 |-> Q(cn[k])]

PermIdx(pat, n, i) == CASE pat = 0 -> i
                        [] pat = 1 -> n + 1 - i
                        [] pat = 2 -> (i % n) + 1
                        [] OTHER   -> LET h == (n + 1) \div 2 IN IF i <= h THEN 2 * i - 1 ELSE 2 * (i - h)
TwoFoldIdx(pat, i) == (pat * i + pat) % 4
ApplyPattern(pat, list) == [p \in 1..Len(list) |->
                              MEval(TwoFold(TwoFoldIdx(pat, p), list[PermIdx(pat, Len(list), p)]))]
SwapAdj(list, i) == [p \in 1..Len(list) |-> IF p = i THEN list[i + 1] ELSE IF p = i + 1 THEN list[i] ELSE list[p]]
Subst(list, i, m) == [p \in 1..Len(list) |-> IF p = i THEN MEval(TwoFold(m, list[i])) ELSE list[p]]

AxisPairs == {<<2, 1>>, <<1, 2>>, <<1, 3>>, <<3, 1>>, <<2, 3>>, <<3, 2>>}   \* <<2,1>> = default ("b","a")

TexCompute(d) ==
    LET n     == d.c[1] + d.c[2] + d.c[3]
        Qm    == d.Q
        base  == TLCEval(OctaList(d.c, d.row))
        rot   == TLCEval([p \in 1..n |-> MEval(Reframe(base[p], Qm))])
        oris  == TLCEval(ApplyPattern(d.pat, rot))
        cnt   == TLCEval([r \in I3 |-> CountsOf(base, r)])
        S0    == TLCEval([r \in I3 |-> Scatter(base, r)])
        Sr    == TLCEval([r \in I3 |-> Scatter(rot, r)])
        S     == TLCEval([r \in I3 |-> Scatter(oris, r)])
        pgr   == TLCEval([r \in I3 |-> PGR(CountsQ(cnt[r]))])
        kmax  == [r \in I3 |-> CHOOSE k \in ArgMax(CountsQ(cnt[r])) : TRUE]
    IN [kind |-> "tex", c |-> d.c, row |-> d.row, pat |-> d.pat, n |-> n, Q |-> Qm,
        base |-> base, rot |-> rot, oris |-> oris, cnt |-> cnt, S0 |-> S0, Sr |-> Sr, S |-> S,
        ax |-> [r \in I3 |->
                  [axis |-> AxisName(r), S |-> S[r], lam |-> SortDesc(CountsQ(cnt[r])), pgr |-> pgr[r],
                   meanDefined |-> Cardinality(ArgMax(CountsQ(cnt[r]))) = 1,
                   \* conditioning of the principal axis: N / (l1 - l2)   (0 when undefined)
                   kappa |-> LET lam == SortDesc(CountsQ(cnt[r])) IN
                             IF lam[1] = lam[2] THEN QZ ELSE QDiv(Q(n), QSub(lam[1], lam[2])),
                   mean |-> VEval(Col(Qm, kmax[r]))]],
        coax |-> SetToSeq({[a1 |-> AxisName(xy[1]), a2 |-> AxisName(xy[2]),
                            defined |-> Anisotropic(pgr[xy[1]]) /\ Anisotropic(pgr[xy[2]]),
                            val |-> IF Anisotropic(pgr[xy[1]]) /\ Anisotropic(pgr[xy[2]])
                                    THEN Coaxial(pgr[xy[1]], pgr[xy[2]]) ELSE QZ] : xy \in AxisPairs})]

IsTex == phase = "out" /\ out.kind = "tex"
TexRotations == IsTex => \A p \in 1..out.n : IsRotation(out.oris[p])
TexPermutation == IsTex => {PermIdx(out.pat, out.n, i) : i \in 1..out.n} = 1..out.n
TexDiagonal == IsTex => \A r \in I3 : out.S0[r] = Diag(CountsQ(out.cnt[r]))
TexFrame == IsTex => \A r \in I3 : out.Sr[r] = MMul(out.Q, MMul(out.S0[r], MT(out.Q)))
TexPermTwofold == IsTex => \A r \in I3 : out.S[r] = out.Sr[r]
TexGenerators == (IsTex /\ out.n <= LemmaN) =>
                   /\ \A i \in 1..(out.n - 1), r \in I3 : Scatter(SwapAdj(out.rot, i), r) = out.Sr[r]
                   /\ \A i \in 1..out.n, m \in 1..3, r \in I3 : Scatter(Subst(out.rot, i, m), r) = out.Sr[r]
TexEigen == IsTex => /\ IsRotation(out.Q)
                     /\ \A r \in I3 : MTrace(out.S[r]) = Q(out.n)
                     /\ \A r \in I3 : out.cnt[r][1] + out.cnt[r][2] + out.cnt[r][3] = out.n
                     /\ out.cnt[out.row] = out.c
                     /\ \A r \in I3, k \in I3 : MVec(out.S[r], Col(out.Q, k)) = VScale(Q(out.cnt[r][k]), Col(out.Q, k))
TexPgr == IsTex => \A r \in I3 : /\ Sum3(out.ax[r].pgr) = QOne
                                 /\ \A i \in I3 : In01(out.ax[r].pgr[i])
                                 /\ Sum3(out.ax[r].lam) = Q(out.n)
                                 /\ QLe(out.ax[r].lam[2], out.ax[r].lam[1]) /\ QLe(out.ax[r].lam[3], out.ax[r].lam[2])
TexCoax == IsTex => \A i \in 1..Len(out.coax) : out.coax[i].defined => In01(out.coax[i].val)
TexMeanUnit == IsTex => \A r \in I3 : VDot(out.ax[r].mean, out.ax[r].mean) = QOne
\* NOT a lemma - non-vacuity control (cfg DiagnosticsNeg expects TLC to refute it): a scatter matrix
\* built from the COLUMNS of the orientation matrices is not the axis scatter matrix.
RECURSIVE ColScatterUpTo(_, _, _)
ColScatterUpTo(list, r, n) == IF n = 0 THEN MZero
                              ELSE MEval(MAdd(ColScatterUpTo(list, r, n - 1), Outer(Col(list[n], r))))
NegColumnScatter == IsTex => \A r \in I3 : ColScatterUpTo(out.oris, r, out.n) = out.S[r]

\* ------------------------------------------------------------------ P, G, R on all count triples <= 12
IsPgr == phase = "out" /\ out.kind = "pgr"
PgrCompute(d) == [kind |-> "pgr", c |-> d.c, pgr |-> PGR(CountsQ(d.c)), lam |-> SortDesc(CountsQ(d.c))]
PgrSumOne == IsPgr => Sum3(out.pgr) = QOne
PgrBounds == IsPgr => \A i \in I3 : In01(out.pgr[i])
\* the general argument: l2 <= N/2 and l3 <= N/3, and the shares used by the coaxial index
PgrRatios == IsPgr => LET n == Sum3(out.lam) IN
                      /\ QLe(QMul(Q(2), out.lam[2]), n) /\ QLe(QMul(Q(3), out.lam[3]), n)
                      /\ (Anisotropic(out.pgr) => (/\ In01(PointShare(out.pgr)) /\ In01(GirdleShare(out.pgr))
                                                   /\ QAdd(PointShare(out.pgr), GirdleShare(out.pgr)) = QOne
                                                   /\ In01(Coaxial(out.pgr, out.pgr))))

\* P, G, R depend on the count triple only through its proportions: m copies of every grain change nothing (the lumping
\* lemma of the eigenvalue diagnostics; the harness replays every triple at m = 1, 11, 50, 128 - up to 1536 grains - as
\* axis-aligned textures, also as integer-typed arrays)
PgrScaleFree == IsPgr => \A m \in {2, 11, 50, 128} : PGR(CountsQ([k \in I3 |-> m * out.c[k]])) = out.pgr

\* ------------------------------------------------------------------ finite strain, F = Q diag(s) Q^T R'
AuxRot(i) == QuatRot(<< <<1, 0, 0, 0>>, <<1, 1, 0, 0>>, <<1, 1, 1, 1>>, <<1, 1, 1, 0>>, <<1, -1, 0, 1>>, <<0, 1, 1, -1>> >>[i])
AuxPairs == {<<1, 4>>, <<4, 5>>, <<3, 2>>, <<6, 3>>, <<5, 6>>}          \* <<index of R', index of Q'>>
StretchTriples == StretchVals \X StretchVals \X StretchVals
FseCompute(d) ==
    LET Qm   == d.Q
        \* aux index 7..9: R' is the half-turn about the k-th PRINCIPAL axis of the stretch, so that
        \* F = Q diag(s) D_k Q^T is symmetric but indefinite (a stretch followed by a rigid 180-degree turn
        \* about one of its own axes): its eigenvalues are NOT its principal stretches
        Rp   == IF d.aux[1] <= 6 THEN MEval(AuxRot(d.aux[1]))
                ELSE MEval(MMul(Qm, MMul(Diag([k \in I3 |-> IF k = d.aux[1] - 6 THEN QOne ELSE QNeg(QOne)]), MT(Qm))))
        Qp   == MEval(AuxRot(d.aux[2]))
        F    == MEval(MMul(MMul(Qm, MMul(Diag(d.s), MT(Qm))), Rp))
        smax == Max3(d.s)
        kmax == CHOOSE k \in ArgMax(d.s) : TRUE
        axis == VEval(Col(Qm, kmax))
    IN [kind |-> "fse", s |-> d.s, Q |-> Qm, Rp |-> Rp, Qp |-> Qp, F |-> F,
        FQ |-> MEval(MMul(F, Qp)), QF |-> MEval(MMul(Qp, F)),
        stretch |-> QSub(smax, QOne), axisDefined |-> Cardinality(ArgMax(d.s)) = 1,
        kappa |-> LET e == SortDesc([k \in I3 |-> QSq(d.s[k])]) IN
                  IF e[1] = e[2] THEN QZ ELSE QDiv(e[1], QSub(e[1], e[2])),
        axis |-> axis, axisCorot |-> VEval(MVec(Qp, axis))]
IsFse == phase = "out" /\ out.kind = "fse"
FseInvertible == IsFse => MDet(out.F) = QMul(QMul(out.s[1], out.s[2]), out.s[3]) /\ MDet(out.F) # QZ
FseEigen == IsFse => /\ IsRotation(out.Q) /\ IsRotation(out.Rp) /\ IsRotation(out.Qp)
                     /\ \A k \in I3 : MVec(LeftCG(out.F), Col(out.Q, k)) = VScale(QSq(out.s[k]), Col(out.Q, k))
FseStretch == IsFse => /\ QSq(QAdd(out.stretch, QOne)) = Max3([k \in I3 |-> QSq(out.s[k])])
                       /\ QLt(QNeg(QOne), out.stretch)
                       /\ MVec(LeftCG(out.F), out.axis) = VScale(QSq(QAdd(out.stretch, QOne)), out.axis)
                       /\ VDot(out.axis, out.axis) = QOne
FseRight == IsFse => LeftCG(out.FQ) = LeftCG(out.F)
FseLeft == IsFse => /\ LeftCG(out.QF) = MMul(out.Qp, MMul(LeftCG(out.F), MT(out.Qp)))
                    /\ MVec(LeftCG(out.QF), out.axisCorot) = VScale(QSq(QAdd(out.stretch, QOne)), out.axisCorot)
                    /\ VDot(out.axisCorot, out.axisCorot) = QOne

\* ------------------------------------------------------------------ simple shear and the closed form
\* Term language of harness/evalterm.py
TQ(a) == <<"q", a>>
TDeg(x) == <<"div", <<"mul", TQ(Q(180)), x>>, <<"mul", TQ(Q(4)), <<"atan", TQ(QOne)>>>>>>
ShearCompute(d) ==
    LET t    == d.t
        g    == QDiv(QSub(QSq(t), QOne), t)
        F    == MEval([i \in I3 |-> [j \in I3 |-> IF i = j THEN QOne ELSE IF i = d.d /\ j = d.n THEN g ELSE QZ]])
        long == VEval([i \in I3 |-> IF i = d.n THEN QOne ELSE IF i = d.d THEN t ELSE QZ])
        shrt == VEval([i \in I3 |-> IF i = d.n THEN t ELSE IF i = d.d THEN QNeg(QOne) ELSE QZ])
    IN [kind |-> "shear", t |-> t, d |-> d.d, n |-> d.n, gamma |-> g, strain |-> QMul(QHalf, g), F |-> F,
        root |-> QDiv(QAdd(QSq(t), QOne), QMul(Q(2), t)),                 \* sqrt(strain^2 + 1)
        stretch |-> QSub(t, QOne), axis |-> long, short |-> shrt,
        kappa |-> QDiv(QSq(t), QSub(QSq(t), QOne)),
        angleDeg |-> TDeg(<<"atan", TQ(t)>>),
        docstringFrame |-> (d.n = 1 /\ d.d = 2)]
IsShear == phase = "out" /\ out.kind = "shear"
ShearEigen == IsShear => LET B == LeftCG(out.F) o == CHOOSE k \in I3 : k \notin {out.d, out.n} IN
                         /\ MVec(B, out.axis) = VScale(QSq(out.t), out.axis)
                         /\ MVec(B, out.short) = VScale(QInv(QSq(out.t)), out.short)
                         /\ MVec(B, E(o)) = E(o)
                         /\ VDot(out.axis, out.short) = QZ /\ VDot(out.axis, E(o)) = QZ /\ VDot(out.short, E(o)) = QZ
                         /\ MDet(out.F) = QOne
ShearLargest == IsShear => /\ QLt(QOne, QSq(out.t)) /\ QLt(QInv(QSq(out.t)), QOne)
                           /\ QSq(QAdd(out.stretch, QOne)) = QSq(out.t) /\ QLt(QZ, out.strain)
\* sqrt(strain^2 + 1) + strain = t, so the helper is degrees(atan(t)) - one atan leaf
ShearClosedForm == IsShear => /\ QSq(out.root) = QAdd(QSq(out.strain), QOne) /\ QLt(QZ, out.root)
                              /\ QAdd(out.root, out.strain) = out.t
                              /\ QDiv(out.axis[out.d], out.axis[out.n]) = out.t

\* ------------------------------------------------------------------ scenario table for the float concretisation
TexClasses == {"random", "clustered", "girdle", "single"}
TexSizes == {1, 2, 50, 10000}
FseClasses == {"gaussian", "polar", "oblique_shear", "reflected", "simple_shear_yx"}
ScenCompute(d) == d
IsScen == phase = "out" /\ out.kind \in {"texscen", "fsescen"}

\* ------------------------------------------------------------------ generator machine
GInit == /\ phase = "in" /\ out = <<>> /\ jl = 0
         /\ \/ cs \in [kind : {"tex"}, c : Triples(MaxN), row : I3, Q : FrameRots, pat : Pats]
            \/ cs \in [kind : {"pgr"}, c : Triples(12)]
            \/ cs \in [kind : {"fse"}, s : StretchTriples, Q : FseRots, aux : AuxSel]
            \/ cs \in {x \in [kind : {"shear"}, t : TanVals, d : I3, n : I3] : x.d # x.n}
            \/ cs \in [kind : {"texscen"}, cls : TexClasses, n : TexSizes, axis : {"a", "b", "c"}]
            \/ cs \in [kind : {"fsescen"}, cls : FseClasses]
GNext == /\ phase = "in" /\ phase' = "out" /\ UNCHANGED <<cs, jl>>
         /\ out' = CASE cs.kind = "tex" -> TexCompute(cs)
                     [] cs.kind = "pgr" -> PgrCompute(cs)
                     [] cs.kind = "fse" -> FseCompute(cs)
                     [] cs.kind = "shear" -> ShearCompute(cs)
                     [] OTHER -> ScenCompute(cs)
GSpec == GInit /\ [][GNext]_vars

\* what the replayer gets (matrices as rows of [n, d] pairs)
Emitted == CASE out.kind = "tex" ->
                  [kind |-> "tex", c |-> out.c, row |-> out.row, pat |-> out.pat, n |-> out.n, Q |-> out.Q,
                   oris |-> out.oris, ax |-> out.ax, coax |-> out.coax]
             [] out.kind = "fse" ->
                  [kind |-> "fse", s |-> out.s, Q |-> out.Q, F |-> out.F, Qp |-> out.Qp, FQ |-> out.FQ, QF |-> out.QF,
                   stretch |-> out.stretch, axisDefined |-> out.axisDefined, kappa |-> out.kappa,
                   axis |-> out.axis, axisCorot |-> out.axisCorot]
             [] out.kind = "shear" ->
                  [kind |-> "shear", t |-> out.t, d |-> out.d, n |-> out.n, strain |-> out.strain, F |-> out.F,
                   stretch |-> out.stretch, kappa |-> out.kappa, axis |-> out.axis, angleDeg |-> out.angleDeg,
                   docstringFrame |-> out.docstringFrame]
             [] OTHER -> out
Emit == /\ (phase = "out" /\ out.kind # "pgr") => PrintT(<<(IF IsScen THEN "SCEN" ELSE "CASE"), ToJson(Emitted)>>)
        /\ IsPgr => PrintT(<<"PGR", ToJson([c |-> out.c, pgr |-> out.pgr, lam |-> out.lam])>>)

\* tier domains (assigned in the cfg files with  Const <- Def)
PatsAll == 0..3
PatsQuick == {0, 3}
AuxQuick == {<<1, 4>>, <<4, 5>>, <<7, 4>>, <<9, 2>>}
AuxThorough == {<<1, 4>>, <<4, 5>>, <<6, 3>>, <<7, 4>>, <<8, 5>>, <<9, 2>>}
\* 17 generic rotations with denominators 5, 7, 9
GenericSample == {QuatRot(q) : q \in {x \in Quats(2, {5, 7, 9}) : x[1] = 1 /\ x[2] >= 1}}
ThoroughRots == SmallRots \cup GenericSample
StretchNeg == {<<2, 1>>}
StretchQuick == {<<1, 2>>, <<1, 1>>, <<2, 1>>, <<3, 1>>}
StretchThorough == {<<1, 2>>, <<2, 3>>, <<1, 1>>, <<3, 2>>, <<2, 1>>, <<3, 1>>}
TanQuick == {<<5, 4>>, <<3, 2>>, <<2, 1>>, <<3, 1>>, <<5, 1>>}
TanThorough == {<<6, 5>>, <<5, 4>>, <<4, 3>>, <<3, 2>>, <<5, 3>>, <<2, 1>>, <<5, 2>>, <<3, 1>>, <<4, 1>>, <<5, 1>>, <<7, 1>>, <<10, 1>>}

\* ================================================================== judge for float concretisations
\* One ndjson line per concretised scenario: integer measures m.* in units of 1e-15 (capped at 2e9),
\* m.gap_e9 = normalised gap between the two largest eigenvalues in 1e-9, m.iso_e9 = smallest P+G
\* of the two scatter matrices the coaxial index uses, in 1e-9.
TraceLog == ndJsonDeserialize(IOEnv.TRACE_FILE)
Tol == 1000000         \* 1e-9  (DESIGN section 6) in units of 1e-15
TolDeg == 100000000    \* 1e-7 degrees = 1e-9 * 90 rounded up, in units of 1e-15 degrees
GapMargin == 1000000   \* 1e-3 in units of 1e-9: below it the principal axis is ill-conditioned
IsoMargin == 1000000   \* 1e-3 in units of 1e-9: below it the scatter matrix counts as isotropic
Over(x, tol, name) == IF x > tol THEN <<name>> ELSE <<>>
TexLaw(e) ==
    LET m == e.m  axisOK == m.gap_e9 >= GapMargin  coaxOK == m.iso_e9 >= IsoMargin IN
    IF ~e.finite THEN <<"not-finite">> ELSE
       Over(m.below0, Tol, "pgr-below-0") \o Over(m.above1, Tol, "pgr-above-1") \o Over(m.sum1, Tol, "pgr-sum-not-1")
    \o Over(m.unit, Tol, "mean-not-unit") \o Over(m.eigres, Tol, "mean-not-principal-eigenvector")
    \o Over(m.permScal, Tol, "permutation-changes-scalars") \o Over(m.foldScal, Tol, "twofold-changes-scalars")
    \o Over(m.frameScal, Tol, "frame-rotation-changes-scalars")
    \o (IF axisOK THEN Over(m.permAxis, Tol, "permutation-changes-mean-axis") \o Over(m.foldAxis, Tol, "twofold-changes-mean-axis")
                       \o Over(m.frameAxis, Tol, "mean-axis-does-not-corotate") ELSE <<>>)
    \o (IF coaxOK THEN Over(m.coaxOut, Tol, "coaxial-outside-unit-interval") \o Over(m.permCoax, Tol, "permutation-changes-coaxial")
                       \o Over(m.foldCoax, Tol, "twofold-changes-coaxial") \o Over(m.frameCoax, Tol, "frame-rotation-changes-coaxial")
        ELSE <<>>)
FseLaw(e) ==
    LET m == e.m  axisOK == m.gap_e9 >= GapMargin IN
    IF ~e.finite THEN <<"not-finite">> ELSE
       Over(m.stretch, Tol, "not-largest-principal-stretch") \o Over(m.unit, Tol, "axis-not-unit")
    \o Over(m.eigres, Tol, "axis-not-principal-eigenvector")
    \o Over(m.rightStretch, Tol, "prior-rotation-changes-stretch") \o Over(m.leftStretch, Tol, "subsequent-rotation-changes-stretch")
    \o (IF axisOK THEN Over(m.rightAxis, Tol, "prior-rotation-changes-axis") \o Over(m.leftAxis, Tol, "axis-does-not-corotate")
                       \o (IF e.cls = "simple_shear_yx" THEN Over(m.helperDeg, TolDeg, "axis-disagrees-with-angle-helper") ELSE <<>>)
        ELSE <<>>)
Skips(e) == (IF e.m.gap_e9 < GapMargin THEN <<"axis-ill-conditioned">> ELSE <<>>)
         \o (IF e.kind = "tex" /\ e.m.iso_e9 < IsoMargin THEN <<"scatter-isotropic">> ELSE <<>>)
JInit == jl = 1 /\ phase = "judge" /\ cs = <<>> /\ out = <<>>
JNext == jl <= Len(TraceLog) /\ jl' = jl + 1 /\ UNCHANGED <<phase, cs, out>>
JSpec == JInit /\ [][JNext]_vars
JudgeLog == /\ (IF jl > 1 THEN LET e == TraceLog[jl - 1] IN
                  PrintT(<<"VERDICT", ToJson([sid |-> e.sid, bad |-> (IF e.kind = "tex" THEN TexLaw(e) ELSE FseLaw(e)),
                                                  skip |-> Skips(e)])>>) ELSE TRUE)
            /\ (IF jl = Len(TraceLog) + 1 THEN PrintT(<<"DONE", Len(TraceLog)>>) ELSE TRUE)
=============================================================================
