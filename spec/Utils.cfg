INIT Init
NEXT Next
CONSTANTS
  Vals = {1, 2, 5}
  MaxLen = 3
INVARIANT PadShape
INVARIANT PadPrefix
INVARIANT RemoveAfterAdd
INVARIANT AddShape
INVARIANT DiffShape
INVARIANT NansOrder
INVARIANT Emit
CHECK_DEADLOCK FALSE
