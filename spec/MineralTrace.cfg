SPECIFICATION TSpec
CONSTANTS
  Minerals = {"a", "b", "c", "d"}
  Files = {"f1", "f2"}
  Postfixes = {"1", "10", "q", "p", "r", "ol_1", "en_1", "1_ol", "meta", "fractions_1", "a b", "", "1.5"}
  Configs = {}
  Seeds = {}
  Textures = {}
  Flows = {}
  Pars = {}
  Callbacks = {}
  MaxUpd = 1000000
  MaxOps = 1000000
  Floorless <- TraceFloorless
INVARIANT Report
CHECK_DEADLOCK FALSE
