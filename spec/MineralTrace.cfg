SPECIFICATION TSpec
CONSTANTS
  Minerals = {"a", "b", "c", "d"}
  Files = {"f1", "f2"}
  Postfixes = {"1", "10", "q", "p", "r"}
  Configs = {}
  Seeds = {}
  Textures = {}
  Flows = {}
  Pars = {}
  Callbacks = {}
  MaxUpd = 1000000
  MaxOps = 1000000
  Floorless <- TraceFloorless
INVARIANT Report
CHECK_DEADLOCK FALSE
