INIT TInit
NEXT TNext
CONSTANTS
  Sizes = {2, 20, 80, 200, 2000}
  Reps = 1
  FullUpTo = 500
  ReducedUpTo = 500
INVARIANT Report
CHECK_DEADLOCK FALSE
