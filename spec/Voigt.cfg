\* C10 generator + lemmas, quick tier
INIT Init
NEXT Next
CONSTANTS
  Tier = "quick"
  Mode = "generate"
INVARIANT SymmetricResult
INVARIANT ModuliOfAverage
INVARIANT AlignedReturnsC
INVARIANT Lumping
INVARIANT DeviationLocus
INVARIANT BasisModuliK
INVARIANT BasisModuliG
INVARIANT BasisSymmetric
INVARIANT CoRotation
INVARIANT MemoAgrees
INVARIANT RejectionOrderFree
INVARIANT RejectionSane
INVARIANT Emit
CHECK_DEADLOCK FALSE
