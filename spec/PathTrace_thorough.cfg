SPECIFICATION TSpec
CONSTANT Tier = "thorough"
INVARIANT Report
CHECK_DEADLOCK FALSE
