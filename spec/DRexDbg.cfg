SPECIFICATION Spec
CONSTANTS
  RotB = 2
  NGen = 6
  QCount = 2
  Multi = TRUE
INVARIANT LemmaDebug
CHECK_DEADLOCK FALSE
