INIT GInit
NEXT GNext
CONSTANTS
  Sizes = {2, 20, 80, 200}
  Reps = 1
  FullUpTo = 100
  ReducedUpTo = 500
INVARIANT EmitScenario
CHECK_DEADLOCK FALSE
