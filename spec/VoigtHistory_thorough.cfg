\* C10 history machine: tensors are read from the passed object at call time (thorough: depth 4 + scripts)
INIT Init
NEXT Next
CONSTANTS
  Tier = "thorough"
  Mode = "history"
INVARIANT HistCurrentIsLastSet
INVARIANT HistCallTime
INVARIANT HistAlignedReturnsCurrent
INVARIANT HistDefaultFixed
INVARIANT HistSymmetric
INVARIANT HistEmit
CHECK_DEADLOCK FALSE
