SPECIFICATION EnumSpec
CONSTANTS
  Minerals = {"a", "b", "c", "d"}
  Files = {"f1"}
  Postfixes <- PfFamilyT
  Configs = {}
  Seeds = {}
  Textures = {}
  Flows = {}
  Pars = {}
  Callbacks = {}
  MaxUpd = 0
  MaxOps = 4
  FixedSavers = FALSE
INVARIANT EmitAtEnd
INVARIANT DiskWellFormed
PROPERTY RoundTrip
PROPERTY PostfixIsolation
CHECK_DEADLOCK FALSE
