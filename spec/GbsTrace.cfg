INIT TInit
NEXT TNext
CONSTANTS
  Tier = "quick"
INVARIANT Report
CHECK_DEADLOCK FALSE
