---------------------------- MODULE TensorsBasis ----------------------------
(***************************************************************************)
(* C11 driver 2: conversions, contractions and the vector isometry on the  *)
(* basis {B_b : b in SymBasis} of the 21-dimensional space of symmetric    *)
(* 6x6 matrices (all maps are linear, so the lemmas extend to every        *)
(* stiffness matrix), and end-to-end on a family of full triclinic integer *)
(* matrices.  TLC proves                                                   *)
(*   RoundTripTensor   C4(B) has the elastic symmetries; Mat6(C4(B)) = B;  *)
(*                     C4(Mat6(T)) = T for T = C4(B);                      *)
(*   RoundTripVector   Vec2SMat(Mat2Vec(B)) = B (rational), and            *)
(*                     Mat2Vec(Vec2Mat(e_k)) is proportional to e_k with   *)
(*                     the unit vector recovered exactly (vector -> matrix *)
(*                     -> vector on the unit vectors of R^21);             *)
(*   ContractionLemma  C_ijkk and C_ikjk equal their Voigt forms (B&C eq.  *)
(*                     3.4 / 3.5), both symmetric, tr d = C_iikk,          *)
(*                     tr v = C_ikik;                                      *)
(*   IsometryLemma     for ALL 21 x 21 basis pairs: <X(B), X(B')> in       *)
(*                     Q(sqrt2) equals the Frobenius inner product of the  *)
(*                     4th-order tensors (norm equality by polarisation);  *)
(*   TricLemma         the same round trips and |X|^2 = |C|_F^2 on the     *)
(*                     triclinic family;                                   *)
(* and emits B, C4(B), X(B), d, v (and the 6x6 matrix of every unit        *)
(* 21-vector) for the replayer.                                            *)
(***************************************************************************)
EXTENDS Tensors, Json
CONSTANT NTric
VARIABLE c
Init == c \in {[kind |-> "seed", b |-> b] : b \in SymBasis}
Next == /\ c.kind = "seed"
        /\ \/ c' = [kind |-> "basis", b |-> c.b]
           \/ c' \in {[kind |-> "pair", b |-> c.b, b2 |-> b2] : b2 \in SymBasis}
           \/ c' \in {[kind |-> "tric", n |-> n] : n \in {m \in 1..NTric : m % 21 = (VecIndex(c.b[1], c.b[2]) % 21)}}

Mof == IF c.kind = "tric" THEN Tric(c.n) ELSE BasisMat6(c.b)
SIsRat(s) == s[2] = QZ
RoundTripTensor == c.kind \in {"basis", "tric"} =>
    LET M == Mof T == C4(M) IN
    /\ IsSym6(M)
    /\ HasElasticSym(T)
    /\ Mat6(T) = M
    /\ C4(Mat6(T)) = T
    /\ T = ToTensor(M)
RoundTripVector == c.kind \in {"basis", "tric"} =>
    LET M == Mof X == Mat2Vec(M) S == Vec2SMat(X) IN
    /\ SMatIsRational(S)
    /\ SMatRational(S) = M
    /\ Mat2Vec(Vec2Mat(X)) = X
UnitVectorRoundTrip == c.kind = "basis" =>
    LET k == VecIndex(c.b[1], c.b[2]) e == Unit21(k) S == Vec2SMat(e) IN
    \* the 6x6 matrix of the unit vector e_k is B_b / weight_k; mapping it back gives e_k
    /\ \A i \in I6, j \in I6 : S[i][j] = (IF <<i, j>> \in {c.b, <<c.b[2], c.b[1]>>} THEN VecWeightInv(k) ELSE SZ)
    /\ \A n \in I21 : SMul(VecWeight(n), S[VecPos[n][1]][VecPos[n][2]]) = e[n]
    /\ Mat2Vec(BasisMat6(c.b)) = [n \in I21 |-> IF n = k THEN VecWeight(k) ELSE SZ]
ContractionLemma == c.kind \in {"basis", "tric"} =>
    LET M == Mof T == C4(M) d == Dilat(T) v == Deviat(T) IN
    /\ MEval(d) = MEval(DilatVoigt(M))
    /\ MEval(v) = MEval(DeviatVoigt(M))
    /\ IsSym3(d) /\ IsSym3(v)
    /\ MTrace(d) = FoldSet(LAMBDA x, acc : QAdd(T[<<x[1], x[1], x[2], x[2]>>], acc), QZ, I3 \X I3)
    /\ MTrace(v) = FoldSet(LAMBDA x, acc : QAdd(T[<<x[1], x[2], x[1], x[2]>>], acc), QZ, I3 \X I3)
IsometryLemma == c.kind = "pair" =>
    LET A == BasisMat6(c.b) B == BasisMat6(c.b2) IN
    XDot(Mat2Vec(A), Mat2Vec(B)) = SQ(TInner(C4(A), C4(B)))
TricLemma == c.kind = "tric" =>
    LET M == Mof IN XNorm2(Mat2Vec(M)) = SQ(TFrob2(C4(M)))

Expected == LET M == Mof T == C4(M) IN
    IF c.kind = "basis"
    THEN [kind |-> "basis", b |-> c.b, k |-> VecIndex(c.b[1], c.b[2]), M |-> Mat6ToSeq(M), T |-> TensorSeq(T),
          X |-> Mat2Vec(M), d |-> MatToSeq(Dilat(T)), v |-> MatToSeq(Deviat(T)),
          XM |-> Vec2SMat(Unit21(VecIndex(c.b[1], c.b[2]))), norm2 |-> TFrob2(T)]
    ELSE [kind |-> "tric", n |-> c.n, M |-> Mat6ToSeq(M), T |-> TensorSeq(T),
          X |-> Mat2Vec(M), d |-> MatToSeq(Dilat(T)), v |-> MatToSeq(Deviat(T)), norm2 |-> TFrob2(T)]
Emit == c.kind \notin {"basis", "tric"} \/ PrintT(<<"CASE", ToJson(Expected)>>)
=============================================================================
