INIT Init
NEXT Next
CHECK_DEADLOCK FALSE
CONSTANT PairQ2 <- PairQ2All
CONSTANT TricQuats <- TricQuatsAll
CONSTANT NTric = 42
INVARIANT RotationsAreRotations
INVARIANT CountLemma
INVARIANT RotationLaw
INVARIANT NormPreserved
INVARIANT SymPreserved
INVARIANT GroupAction
INVARIANT TricVectorNorm
INVARIANT Emit
