---- MODULE PyDRexMC ----
\* Exhaustive configuration of the Layer-B machine: 2 minerals, one representative
\* configuration per Dispatch class and phase, 2 flows, 3 parameter classes.
EXTENDS PyDRex
MCConfigs == { [phase |-> 0, fabric |-> 0, regime |-> 4, n |-> 4],    \* texture
               [phase |-> 1, fabric |-> 5, regime |-> 0, n |-> 4],    \* null, enstatite
               [phase |-> 0, fabric |-> 5, regime |-> 6, n |-> 3],    \* invalid pair in a texture regime
               [phase |-> 0, fabric |-> 2, regime |-> 3, n |-> 3] }   \* unsupported regime
MCPars == { [M |-> 125, chi |-> 3, asm |-> <<0>>, phiOl |-> 10, x |-> <<5, 0>>],
            [M |-> 0,   chi |-> 0, asm |-> <<0, 1>>, phiOl |-> 7, x |-> <<5, 0>>],
            [M |-> 10,  chi |-> 3, asm |-> <<1, 0>>, phiOl |-> 7, x |-> <<5, 0>>] }
====
