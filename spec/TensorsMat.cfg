INIT Init
NEXT Next
CHECK_DEADLOCK FALSE
CONSTANT UpperSet <- UpperQuick
CONSTANT LamSet <- LamQuick
CONSTANT PolarQuats <- PolarQuatsQuick
CONSTANT StretchSet <- StretchQuick
INVARIANT SimilarityLemma
INVARIANT InvariantsLemma
INVARIANT CayleyHamilton
INVARIANT PolarLemma
INVARIANT SharedRotation
INVARIANT StretchSetLemma
INVARIANT Emit
