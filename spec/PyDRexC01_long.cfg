SPECIFICATION C01Spec
CONSTANTS
  Minerals = {a}
  Files = {f1}
  Postfixes = {}
  Configs <- C01LongConfigs
  Seeds = {1, 2, 3}
  Textures = {"random", "nonuniform", "layout", "layoutc", "intaligned"}
  Flows = {"ss_xz", "pure_xy", "axi_c", "gen3d"}
  Pars <- C01LongPars
  Callbacks = {}
  Ns = {8, 50}
  MaxUpd = 1000
  MaxOps = 14
INVARIANT EmitAtEnd
CHECK_DEADLOCK FALSE
