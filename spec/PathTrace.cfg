SPECIFICATION TSpec
CONSTANT Tier = "quick"
INVARIANT Report
CHECK_DEADLOCK FALSE
