------------------------------- MODULE Elastic -------------------------------
(***************************************************************************)
(* Layer A / C12: the elastic symmetry decomposition of Browaeys & Chevrot *)
(* (2004) as documented for pydrex.diagnostics.elasticity_components,      *)
(* written from the documented definitions on top of the C11 module        *)
(* Tensors (Voigt map, 21-vector over Q(sqrt2), contractions, projector    *)
(* matrices), NOT from the expressions of the implementation.              *)
(*                                                                         *)
(* WHAT IS SPECIFIED                                                       *)
(*  d_ij = C_ijkk, v_ij = C_ikjk          (Tensors!Dilat, Tensors!Deviat)  *)
(*  K = tr(d) / 9,  G = (tr(v) - 3K) / 10                (BulkK, ShearG)   *)
(*  X_iso = (K+4G/3 x3, sqrt2 (K-2G/3) x3, 2G x3, 0 x12)   (IsoVec, A5)    *)
(*  (percent_anisotropy / 100)^2 = |X - X_iso|^2 / |X|^2    (Aniso2)       *)
(*    with X the 21-vector of the 6x6 matrix; all of it exact in Q(sqrt2); *)
(*    both squared norms are rational, so the quotient is a rational.      *)
(*  The decomposition cascade in a symmetry cartesian frame whose third    *)
(*  axis is the candidate hexagonal axis (Chain):                          *)
(*    X = tric + mono + ortho + tetr + hex + X_iso,  where                 *)
(*    tric = X - P_mono X, mono = P_mono X - P_ortho P_mono X, ... ,       *)
(*    hex = P_hex(...) - X_iso, and the hexagonal axis is the one of the   *)
(*    three frame axes that minimises |X - P_hex(..) X| (BestS).           *)
(*  For a tensor that is orthorhombic in an axis-aligned frame with        *)
(*  distinct d- and v-eigenvalues the frame axes are the common            *)
(*  eigenvectors of d and v; expressed in a frame rotated by R they are    *)
(*  the columns of R.                                                      *)
(*                                                                         *)
(* WHAT TLC CHECKS (cfg Elastic / Elastic_thorough; invariants, exact)     *)
(*  on every library tensor (2 built-in single-crystal tensors + the       *)
(*  valid members of a family of small-integer orthorhombic tensors):      *)
(*   LibraryValid    orthorhombic form, positive definite by Sylvester's   *)
(*                   criterion, d and v diagonal with distinct entries     *)
(*                   (candidates failing this are filtered out; counted)   *)
(*   IsoLemma        X_iso lies in every symmetry class; (X - X_iso) is    *)
(*                   orthogonal to X_iso, norms rational, hence            *)
(*                   0 <= Aniso2 <= 1  (percent anisotropy in [0, 100])    *)
(*   ChainLemma      for each of the three axis choices: tric = mono = 0   *)
(*                   and hex^2+tetr^2+ortho^2 = |X - X_iso|^2 (Pythagoras  *)
(*                   for the nested orthogonal projectors)                 *)
(*   FunctionalLemma the linear-functional / term program emitted for the  *)
(*                   float part reproduces K and G exactly                 *)
(*  on every (tensor, rotation R) of the rotation set (frame lemma):       *)
(*   RotatedSymmetric  the rotated tensor has the elastic symmetries       *)
(*   FrameK, FrameG    K and G are unchanged by TRotate                    *)
(*   FrameAniso        |X|^2 and |X - X_iso|^2 (hence Aniso2) unchanged    *)
(*                     (small-integer family; see number ranges)           *)
(*   ContractionsCoRotate  d' = R d R^T, v' = R v R^T                      *)
(*   EigenAxes         the columns of R are eigenvectors of d' and v' for  *)
(*                     the diagonal entries of d, v: the symmetry axes of  *)
(*                     the rotated tensor are +-R e_i                      *)
(*  cfg ElasticNeg (non-vacuity): the UNWEIGHTED sum of squares of the 21  *)
(*  independent entries is not rotation invariant - TLC must refute it.    *)
(*                                                                         *)
(* WHAT TLC EMITS                                                          *)
(*  TABLES  rotation table, Voigt index maps, the term program K, G, num,  *)
(*          den, pct over parameters c11..c66 (generic evaluator), the     *)
(*          functionals d_ij, v_ij as terms, tolerances, counts            *)
(*  TENSOR  per library tensor: exact K, G, Aniso2 and the exact cascade   *)
(*          (best axis, squared class fractions, tie flag)                 *)
(*  CASE    per (tensor, rotation): the rotated 6x6 (rationals), exact K,  *)
(*          G, Aniso2 and the term 100 sqrt(Aniso2)                        *)
(*  SCEN    the classes of floating-point scenarios                        *)
(*                                                                         *)
(* cfg ElasticJudge: THE LAW for the integer measures the harness records  *)
(* from pydrex (exact replays and float scenarios alike), see Law below:   *)
(* moduli and percent anisotropy to 1e-9 (relative, DESIGN 6) and within   *)
(* [0, 100], unit axis - always; percentages unchanged and axis = +-R axis0 *)
(* to 1e-6 - where the symmetry axes are well conditioned (relative eigen- *)
(* gaps of d and v >= 1e-4, unique nearest-eigenvector pairing, no exact   *)
(* tie of the hexagonal axis; otherwise skipped and counted); mono = tric  *)
(* = 0 and Pythagoras to 1e-6 - for the orthorhombic classes only.         *)
(*                                                                         *)
(* Number ranges (TLC integers are 32-bit, overflow is an error):          *)
(*  rotations have denominator <= 3 (Mat3!SmallRots: 24 octahedral + 16);  *)
(*  the family has entries in -3..12, so rotated entries are n/81 and      *)
(*  X - X_iso is n/810 with |X|^2 <= 1026: every partial sum of squares    *)
(*  stays below 1026 * 810^2 = 6.8e8.  The built-in tensors are integers   *)
(*  in hundredths (olivine) / tenths (enstatite) of GPa; their rotated     *)
(*  6x6, K and G are exact for all 40 rotations (numerators < 2e7), but    *)
(*  their squared norms exceed 2^31 even unrotated (olivine: 2.28e9), so   *)
(*  for them percent_anisotropy is obtained by the generic evaluator from  *)
(*  the emitted term program applied to the exact rotated 6x6 (sum of      *)
(*  squares and sqrt are leaves), and its frame invariance rests on        *)
(*  FrameAniso on the family plus the isometry lemmas of C11.              *)
(***************************************************************************)
EXTENDS Tensors, SequencesExt, Json, IOUtils

CONSTANTS Tier,     \* "quick" | "thorough" : size of the orthorhombic family
          Mode      \* "generate" | "negative" | "judge"
VARIABLES c,        \* the case / tensor / table entry / measure line (never changes)
          res       \* [done |-> FALSE] until the one-shot Next has evaluated it
vars == <<c, res>>

Thorough == Tier = "thorough"
Mod(a, b) == a % b
M6Eval(M) == TLCEval([i \in I6 |-> TLCEval([j \in I6 |-> M[i][j]])])
QM6(M) == M6Eval([i \in I6 |-> [j \in I6 |-> Q(M[i][j])]])
\* division with cross-cancellation first (32-bit products)
QDivSafe(a, b) == LET g1 == GCD(Abs(a[1]), Abs(b[1]))  g2 == GCD(a[2], b[2]) IN
                  QNorm((a[1] \div g1) * (b[2] \div g2), (a[2] \div g2) * (b[1] \div g1))

\* ------------------------------------------------------------------ moduli, isotropic part, anisotropy
BulkK(T) == QMul(<<1, 9>>, MTrace(Dilat(T)))                                        \* K = tr(d)/9
ShearG(T) == QMul(<<1, 10>>, QSub(MTrace(Deviat(T)), QMul(Q(3), BulkK(T))))         \* G = (tr(v) - 3K)/10
IsoVec(K, G) == LET a == QAdd(K, QMul(<<4, 3>>, G))          \* K + 4G/3
                    b == QSub(K, QMul(<<2, 3>>, G))          \* K - 2G/3
                IN TLCEval([k \in I21 |-> IF k <= 3 THEN SQ(a) ELSE IF k <= 6 THEN SScale(b, Root2)
                                          ELSE IF k <= 9 THEN SQ(QMul(Q(2), G)) ELSE SZ])
IsoOf(M) == LET T == C4(M) IN IsoVec(BulkK(T), ShearG(T))
AnisoNum(M) == XNorm2(XSub(Mat2Vec(M), IsoOf(M)))            \* |X - X_iso|^2   (in Q(sqrt2))
AnisoDen(M) == XNorm2(Mat2Vec(M))                            \* |X|^2
IsRationalS(x) == x[2] = QZ
\* (percent_anisotropy / 100)^2, meaningful when both norms are rational (lemma IsoLemma / FrameAniso)
Aniso2Of(num, den) == QDivSafe(num[1], den[1])
\* negative control: the 21 independent entries without the B&C weights
FlatNorm2(M) == FoldSet(LAMBDA b, acc : QAdd(QMul(M[b[1]][b[2]], M[b[1]][b[2]]), acc), QZ, SymBasis)

\* ------------------------------------------------------------------ the decomposition cascade
\* frame whose axes are the old axes cyclically shifted by s: new axis i = old axis ((i-1+s) mod 3)+1
Cyc(s) == [i \in I3 |-> [j \in I3 |-> IF j = Mod(i - 1 + s, 3) + 1 THEN QOne ELSE QZ]]
ThirdAxis(s) == Mod(2 + s, 3) + 1                    \* the old axis that becomes x3
Chain(X, Xiso) ==
  LET mono == Project("mono", X)
      ortho == Project("ortho", mono)
      tetr == Project("tetr", ortho)
      hex == Project("hex", tetr)
  IN [tric |-> XNorm2(XSub(X, mono)), mono |-> XNorm2(XSub(mono, ortho)), ortho |-> XNorm2(XSub(ortho, tetr)),
      tetr |-> XNorm2(XSub(tetr, hex)), hex |-> XNorm2(XSub(hex, Xiso)), dist |-> XNorm2(XSub(X, hex))]
ChainAt(M, s) == Chain(Mat2Vec(M6Eval(Mat6(TRotate(C4(M), Cyc(s))))), IsoOf(M))
SLess(x, y) == SSign(SSub(x, y)) < 0

\* ------------------------------------------------------------------ tensor library
Sym6(u) == [i \in I6 |-> [j \in I6 |-> LET p == IF i <= j THEN i ELSE j
                                           q == IF i <= j THEN j ELSE i IN u[p][q - p + 1]]]
\* pydrex.minerals.StiffnessTensors (GPa): olivine in hundredths, enstatite in tenths
BuiltinOl == Sym6(<< <<32071, 6984, 7122, 0, 0, 0>>, <<19725, 7480, 0, 0, 0>>, <<23432, 0, 0, 0>>,
                     <<6377, 0, 0>>, <<7767, 0>>, <<7836>> >>)
BuiltinEn == Sym6(<< <<2369, 796, 632, 0, 0, 0>>, <<1805, 568, 0, 0, 0>>, <<2304, 0, 0, 0>>,
                     <<843, 0, 0>>, <<794, 0>>, <<801>> >>)
\* orthorhombic family: e = <<C11, C22, C33, C23, C13, C12, C44, C55, C66>>
OrthoMat(e) == [i \in I6 |-> [j \in I6 |->
                 IF i = j THEN (IF i <= 3 THEN e[i] ELSE e[i + 3])
                 ELSE IF i <= 3 /\ j <= 3 THEN e[3 + (6 - i - j)] ELSE 0]]
HashO(n, k) == Mod(n * n * 5 + n * (7 * k + 3) + 11 * k * k + 13 * k + 17 + 29 * (n \div 211) * (k + 1), 211)
OrthoEntries(n) == [k \in 1..9 |-> LET h == HashO(n, k) IN
                      IF k <= 3 THEN 5 + Mod(h, 8) ELSE IF k <= 6 THEN Mod(h, 9) - 2 ELSE 1 + Mod(h, 5)]
NCand == IF Thorough THEN 420 ELSE 120
OrthoCands == {OrthoEntries(n) : n \in 1..NCand}
\* validity of an integer 6x6 as a member of the property's domain
Block3(M) == [i \in I3 |-> [j \in I3 |-> Q(M[i][j])]]
IsOrthoForm(M) == \A i \in I6, j \in I6 : (i # j /\ (i > 3 \/ j > 3)) => M[i][j] = 0
IsPD6Ortho(M) == IsPD(Block3(M)) /\ M[4][4] > 0 /\ M[5][5] > 0 /\ M[6][6] > 0       \* Sylvester, block diagonal
\* sufficient criterion with small numbers (the 3x3 determinant of the built-ins exceeds 32 bits):
\* symmetric, positive diagonal, strictly diagonally dominant => positive definite (Gershgorin)
IsPD6Dominant(M) == /\ \A i \in I3 : M[i][i] > Abs(M[i][Mod(i, 3) + 1]) + Abs(M[i][Mod(i + 1, 3) + 1])
                    /\ M[4][4] > 0 /\ M[5][5] > 0 /\ M[6][6] > 0
DiagOf(A) == <<A[1][1], A[2][2], A[3][3]>>
IsDiag3(A) == \A i \in I3, j \in I3 : i # j => A[i][j] = QZ
Distinct3(l) == l[1] # l[2] /\ l[1] # l[3] /\ l[2] # l[3]
DistinctAxes(M) == LET T == C4(QM6(M)) IN Distinct3(DiagOf(Dilat(T))) /\ Distinct3(DiagOf(Deviat(T)))
ValidOrtho(M) == IsOrthoForm(M) /\ IsPD6Ortho(M) /\ DistinctAxes(M)
OrthoSeq == SetToSeq({e \in OrthoCands : ValidOrtho(OrthoMat(e))})
NOrtho == Len(OrthoSeq)
NotPD == Cardinality({e \in OrthoCands : ~IsPD6Ortho(OrthoMat(e))})
NotDistinct == Cardinality({e \in OrthoCands : IsPD6Ortho(OrthoMat(e)) /\ ~DistinctAxes(OrthoMat(e))})
NLib == 2 + NOrtho
LibInt(t) == IF t = 1 THEN BuiltinOl ELSE IF t = 2 THEN BuiltinEn ELSE OrthoMat(OrthoSeq[t - 2])
LibFam(t) == IF t <= 2 THEN "builtin" ELSE "ortho"
LibName(t) == IF t = 1 THEN "olivine" ELSE IF t = 2 THEN "enstatite" ELSE "family"
LibScale(t) == IF t = 1 THEN 100 ELSE IF t = 2 THEN 10 ELSE 1
LibM == IF Mode = "judge" THEN <<>> ELSE TLCEval([t \in 1..NLib |-> QM6(LibInt(t))])
Exact(t) == LibFam(t) = "ortho"                       \* squared norms fit in 32 bits

RotSeq == SetToSeq(OctaRots) \o SetToSeq(SmallRots \ OctaRots)      \* 1..24 octahedral, 25..40 denominator 3
NRot == Len(RotSeq)
IdIdx == CHOOSE r \in 1..NRot : RotSeq[r] = MId

\* unrotated reference values, evaluated once
BaseOf(t) == LET M == LibM[t]  T == C4(M) IN
  [K |-> BulkK(T), G |-> ShearG(T), dil |-> MEval(Dilat(T)), dev |-> MEval(Deviat(T)),
   num |-> IF Exact(t) THEN AnisoNum(M) ELSE SZ, den |-> IF Exact(t) THEN AnisoDen(M) ELSE SZ,
   flat |-> IF Exact(t) THEN FlatNorm2(M) ELSE QZ]
Base == IF Mode = "judge" THEN <<>> ELSE TLCEval([t \in 1..NLib |-> BaseOf(t)])

\* ------------------------------------------------------------------ terms for the generic evaluator
SymBasisSeq == SetToSeq(SymBasis)
ParamName(b) == "c" \o ToString(b[1]) \o ToString(b[2])
QT(r) == <<"q", r>>
FuncTerm(F(_)) == <<"sum", [k \in 1..Len(SymBasisSeq) |->
                      <<"mul", QT(F(BasisMat6(SymBasisSeq[k]))), <<"param", ParamName(SymBasisSeq[k])>>>>]>>
S2Term(x) == <<"add", QT(x[1]), <<"mul", QT(x[2]), <<"sqrt", QT(Q(2))>>>>>>
XTerm(k) == <<"mul", S2Term(VecWeight(k)), <<"param", ParamName(VecPos[k])>>>>
\* X_iso is linear in (K, G): coefficients read off IsoVec itself
IsoTerm(k) == <<"add", <<"mul", S2Term(IsoVec(QOne, QZ)[k]), <<"var", "K">>>>,
                       <<"mul", S2Term(IsoVec(QZ, QOne)[k]), <<"var", "G">>>>>>
Two == QT(Q(2))
NumTerm == <<"sum", [k \in I21 |-> <<"pow", <<"sub", XTerm(k), IsoTerm(k)>>, Two>>]>>
DenTerm == <<"sum", [k \in I21 |-> <<"pow", XTerm(k), Two>>]>>
RatioTerm == <<"div", <<"var", "num">>, <<"var", "den">>>>
PctTerm == <<"mul", QT(Q(100)), <<"sqrt", RatioTerm>>>>
Def(name, term) == <<name, term>>
Program == << Def("K", FuncTerm(LAMBDA M : BulkK(C4(M)))),
              Def("G", FuncTerm(LAMBDA M : ShearG(C4(M)))),
              Def("num", NumTerm), Def("den", DenTerm), Def("pct", PctTerm) >>
DilTerms == [i \in I3 |-> [j \in I3 |-> FuncTerm(LAMBDA M : Dilat(C4(M))[i][j])]]
DevTerms == [i \in I3 |-> [j \in I3 |-> FuncTerm(LAMBDA M : Deviat(C4(M))[i][j])]]
\* the same functionals evaluated exactly (for FunctionalLemma)
FuncValue(F(_), M) == FoldSet(LAMBDA b, acc : QAdd(QMul(F(BasisMat6(b)), M[b[1]][b[2]]), acc), QZ, SymBasis)

\* ------------------------------------------------------------------ float scenario classes
\* cls: which tensors; ortho: the orthorhombic clauses are demanded; tier: smallest tier that runs it
Scen == {[cls |-> "builtin_olivine", ortho |-> TRUE, n |-> 1, mix |-> FALSE, thoroughOnly |-> FALSE],
         [cls |-> "builtin_enstatite", ortho |-> TRUE, n |-> 1, mix |-> FALSE, thoroughOnly |-> FALSE],
         [cls |-> "ortho_random", ortho |-> TRUE, n |-> 1, mix |-> FALSE, thoroughOnly |-> FALSE]}
        \cup {[cls |-> k, ortho |-> FALSE, n |-> n, mix |-> x, thoroughOnly |-> n > 200]
                : k \in {"voigt_random", "voigt_clustered"}, n \in {2, 5, 50, 200, 1000}, x \in BOOLEAN}
        \cup {[cls |-> "voigt_evolved", ortho |-> FALSE, n |-> n, mix |-> x, thoroughOnly |-> TRUE]
                : n \in {20, 100}, x \in BOOLEAN}
OrthoClasses == {"ortho", "builtin"} \cup {s.cls : s \in {x \in Scen : x.ortho}}

\* ------------------------------------------------------------------ the law for recorded measures
\* One ndjson line per evaluation of elasticity_components on a frame-rotated input, compared with the
\* exact values (kind "exact") or the term program (kind "float") and with the implementation's own
\* output on the unrotated input.  Measures m.* are non-negative integers in units of 1e-12 (capped at
\* 2e9); gapD, gapV = smallest relative eigenvalue gap of d and v in units of 1e-9; pairGap = smallest
\* difference between the two largest |cos| of an eigenvector of d with the eigenvectors of v, in 1e-9.
TraceLog == IF Mode = "judge" THEN ndJsonDeserialize(IOEnv.TRACE_FILE) ELSE <<>>
TolExact == 1001          \* |impl - exact| <= 1e-9 * max(1, |exact|) + 1e-12          (DESIGN 6)
TolMeta == 1000000        \* 1e-6: metamorphic clauses (percent units / unit-vector components)
GapMargin == 100000       \* 1e-4 relative: below it the symmetry axes are ill conditioned (quantifier)
PairMargin == 1000        \* 1e-6: an eigenvector of d equally close (|cos|) to two eigenvectors of v - the axes
                          \* built from matched pairs of eigenvectors are then not well defined either
MKeys == {"kDev", "gDev", "anisoDev", "rangeOut", "pctDev", "unitDev", "axisDev", "mono", "tric", "pyth", "gapD", "gapV", "pairGap"}
Wellformed(e) == /\ {"sid", "kind", "cls", "finite", "hexTie", "m"} \subseteq DOMAIN e
                 /\ e.kind \in {"exact", "float"} /\ e.finite \in BOOLEAN /\ e.hexTie \in BOOLEAN
                 /\ MKeys \subseteq DOMAIN e.m /\ \A k \in MKeys : e.m[k] \in Nat
Over(x, tol, name) == IF x > tol THEN <<name>> ELSE <<>>
AxesOK(e) == e.m.gapD >= GapMargin /\ e.m.gapV >= GapMargin /\ e.m.pairGap >= PairMargin /\ ~e.hexTie
Law(e) ==
  IF ~Wellformed(e) THEN <<"malformed">>
  ELSE IF ~e.finite THEN <<"not-finite">>
  ELSE LET m == e.m IN
       \* any stiffness matrix: moduli and percent anisotropy (well conditioned everywhere)
          Over(m.kDev, TolExact, "bulk-modulus") \o Over(m.gDev, TolExact, "shear-modulus")
       \o Over(m.anisoDev, TolExact, "percent-anisotropy") \o Over(m.rangeOut, TolExact, "anisotropy-outside-0-100")
       \o Over(m.unitDev, TolMeta, "axis-not-unit")
       \* frame independence, where the symmetry axes are well conditioned
       \o (IF AxesOK(e) THEN Over(m.pctDev, TolMeta, "percentages-change-under-rotation")
                             \o Over(m.axisDev, TolMeta, "axis-does-not-corotate") ELSE <<>>)
       \* orthorhombic tensors with distinct principal axes
       \o (IF e.cls \in OrthoClasses /\ AxesOK(e)
           THEN Over(m.mono, TolMeta, "monoclinic-part-nonzero") \o Over(m.tric, TolMeta, "triclinic-part-nonzero")
                \o Over(m.pyth, TolMeta, "class-squares-do-not-sum") ELSE <<>>)
Skips(e) == IF ~Wellformed(e) THEN <<>>
            ELSE (IF e.m.gapD < GapMargin \/ e.m.gapV < GapMargin THEN <<"eigenvalues-not-separated">> ELSE <<>>)
              \o (IF e.m.pairGap < PairMargin THEN <<"eigenvector-pairing-ambiguous">> ELSE <<>>)
              \o (IF e.hexTie THEN <<"hexagonal-axis-tie">> ELSE <<>>)

\* ------------------------------------------------------------------ behaviour: one-shot evaluation
CaseStates == {[kind |-> "case", t |-> t, r |-> r] : t \in 1..NLib, r \in 1..NRot}
TensorStates == {[kind |-> "tensor", t |-> t] : t \in 1..NLib}
NegStates == {[kind |-> "case", t |-> t, r |-> r] : t \in 3..5, r \in 1..NRot}
Init == /\ \/ Mode = "generate" /\ \/ c \in CaseStates
                                   \/ c \in TensorStates
                                   \/ c \in {[kind |-> "scen", s |-> s] : s \in Scen}
                                   \/ c = [kind |-> "tables"]
           \/ Mode = "negative" /\ c \in NegStates
           \/ Mode = "judge" /\ c \in {[kind |-> "measure", i |-> k] : k \in 1..Len(TraceLog)}
        /\ res = [done |-> FALSE]

EvalCase(x) ==
  LET R == RotSeq[x.r]
      Tr == TRotate(C4(LibM[x.t]), R)
      Mr == M6Eval(Mat6(Tr))
  IN [done |-> TRUE, M |-> Mr, sym |-> HasElasticSym(Tr), K |-> BulkK(Tr), G |-> ShearG(Tr),
      dil |-> MEval(Dilat(Tr)), dev |-> MEval(Deviat(Tr)),
      num |-> IF Exact(x.t) THEN AnisoNum(Mr) ELSE SZ, den |-> IF Exact(x.t) THEN AnisoDen(Mr) ELSE SZ,
      flat |-> IF Exact(x.t) THEN FlatNorm2(Mr) ELSE QZ]
EvalTensor(x) ==
  IF ~Exact(x.t) THEN [done |-> TRUE]
  ELSE LET M == LibM[x.t]
           ch == TLCEval([s \in 0..2 |-> ChainAt(M, s)])
           best == CHOOSE s \in 0..2 : \A u \in 0..2 : ~SLess(ch[u].dist, ch[s].dist)
       IN [done |-> TRUE, ch |-> ch, best |-> best,
           tie |-> \E u \in 0..2 : u # best /\ ch[u].dist = ch[best].dist,
           iso |-> IsoOf(M), X |-> Mat2Vec(M)]
Evaluate(x) == CASE x.kind = "case" -> EvalCase(x)
                 [] x.kind = "tensor" -> EvalTensor(x)
                 [] OTHER -> [done |-> TRUE]
Next == ~res.done /\ res' = Evaluate(c) /\ UNCHANGED c
Spec == Init /\ [][Next]_vars

\* ------------------------------------------------------------------ lemmas
Done(k) == res.done /\ c.kind = k
LibraryValid == Done("tensor") =>
  LET M == LibInt(c.t)  T == C4(LibM[c.t]) IN
  /\ IsSym6(LibM[c.t]) /\ IsOrthoForm(M) /\ (IF Exact(c.t) THEN IsPD6Ortho(M) ELSE IsPD6Dominant(M))
  /\ IsDiag3(Dilat(T)) /\ IsDiag3(Deviat(T)) /\ DistinctAxes(M)
  /\ QSign(Base[c.t].K) = 1 /\ QSign(Base[c.t].G) = 1
LibraryCount == Done("tables") => (NOrtho >= (IF Thorough THEN 150 ELSE 40) /\ NotPD >= 1
                                   /\ NOrtho + NotPD + NotDistinct = Cardinality(OrthoCands)
                                   /\ \A r \in 1..NRot : IsRotation(RotSeq[r])
                                   /\ \A s \in 0..2 : IsRotation(Cyc(s)) /\ Cyc(s)[3][ThirdAxis(s)] = QOne)
IsoLemma == (Done("tensor") /\ Exact(c.t)) =>
  /\ \A cl \in {"mono", "ortho", "tetr", "hex"} : Project(cl, res.iso) = res.iso
  /\ XDot(XSub(res.X, res.iso), res.iso) = SZ
  /\ IsRationalS(Base[c.t].num) /\ IsRationalS(Base[c.t].den) /\ QSign(Base[c.t].den[1]) = 1
  /\ LET a == Aniso2Of(Base[c.t].num, Base[c.t].den) IN QSign(a) >= 0 /\ QLe(a, QOne)
ChainLemma == (Done("tensor") /\ Exact(c.t)) =>
  \A s \in 0..2 : LET h == res.ch[s] IN
     /\ h.tric = SZ /\ h.mono = SZ
     /\ SAdd(SAdd(h.hex, h.tetr), h.ortho) = Base[c.t].num
     /\ h.dist = SAdd(h.ortho, h.tetr)
     /\ IsRationalS(h.hex) /\ IsRationalS(h.tetr) /\ IsRationalS(h.ortho)
FunctionalLemma == Done("tensor") =>
  /\ FuncValue(LAMBDA M : BulkK(C4(M)), LibM[c.t]) = Base[c.t].K
  /\ FuncValue(LAMBDA M : ShearG(C4(M)), LibM[c.t]) = Base[c.t].G
RotatedSymmetric == Done("case") => (res.sym /\ IsSym6(res.M))
FrameK == Done("case") => res.K = Base[c.t].K
FrameG == Done("case") => res.G = Base[c.t].G
FrameAniso == (Done("case") /\ Exact(c.t)) => (res.num = Base[c.t].num /\ res.den = Base[c.t].den)
ContractionsCoRotate == Done("case") =>
  LET R == RotSeq[c.r] IN /\ res.dil = MEval(MMul(MMul(R, Base[c.t].dil), MT(R)))
                          /\ res.dev = MEval(MMul(MMul(R, Base[c.t].dev), MT(R)))
EigenAxes == Done("case") =>
  LET R == RotSeq[c.r] IN
  \A i \in I3 : LET col == [k \in I3 |-> R[k][i]] IN
     /\ MVec(res.dil, col) = [k \in I3 |-> QMul(Base[c.t].dil[i][i], col[k])]
     /\ MVec(res.dev, col) = [k \in I3 |-> QMul(Base[c.t].dev[i][i], col[k])]
NegFlatNormInvariant == (Done("case") /\ Exact(c.t)) => res.flat = Base[c.t].flat

\* ------------------------------------------------------------------ emission and verdicts
Rat01(x) == x[1]                                     \* rational part of a rational element of Q(sqrt2)
Tables == [rots |-> [r \in 1..NRot |-> RotSeq[r]], identity |-> IdIdx,
           program |-> Program, dil |-> DilTerms, dev |-> DevTerms,
           params |-> [k \in 1..Len(SymBasisSeq) |-> [name |-> ParamName(SymBasisSeq[k]), i |-> SymBasisSeq[k][1], j |-> SymBasisSeq[k][2]]],
           vidx |-> [p \in I3 |-> [q \in I3 |-> VoigtIdx(p, q)]], vpair |-> [i \in I6 |-> VoigtPair(i)],
           tolExact |-> TolExact, tolMeta |-> TolMeta, gapMargin |-> GapMargin, pairMargin |-> PairMargin,
           orthoClasses |-> SetToSeq(OrthoClasses),
           counts |-> [tensors |-> NLib, ortho |-> NOrtho, cands |-> Cardinality(OrthoCands), notPD |-> NotPD,
                       notDistinct |-> NotDistinct, rots |-> NRot, scen |-> Cardinality(Scen)]]
Emit ==
  CASE Done("case") ->
         PrintT(<<"CASE", ToJson([t |-> c.t, r |-> c.r, fam |-> LibFam(c.t), scale |-> LibScale(c.t), M |-> res.M,
                                  K |-> res.K, G |-> res.G, exact |-> Exact(c.t),
                                  aniso2 |-> IF Exact(c.t) THEN Aniso2Of(res.num, res.den) ELSE QZ,
                                  pct |-> IF Exact(c.t)
                                          THEN <<"mul", QT(Q(100)), <<"sqrt", QT(Aniso2Of(res.num, res.den))>>>>
                                          ELSE <<"var", "pct">>])>>)
    [] Done("tensor") ->
         PrintT(<<"TENSOR", ToJson([t |-> c.t, fam |-> LibFam(c.t), name |-> LibName(c.t), scale |-> LibScale(c.t),
                                    M |-> LibM[c.t], K |-> Base[c.t].K, G |-> Base[c.t].G, exact |-> Exact(c.t),
                                    hexTie |-> IF Exact(c.t) THEN res.tie ELSE FALSE,
                                    bestAxis |-> IF Exact(c.t) THEN ThirdAxis(res.best) ELSE 0,
                                    class2 |-> IF Exact(c.t)
                                               THEN LET h == res.ch[res.best]  den == Base[c.t].den[1] IN
                                                    [hex |-> QDivSafe(Rat01(h.hex), den), tetr |-> QDivSafe(Rat01(h.tetr), den),
                                                     ortho |-> QDivSafe(Rat01(h.ortho), den)]
                                               ELSE <<>>])>>)
    [] Done("scen") -> PrintT(<<"SCEN", ToJson(c.s)>>)
    [] Done("tables") -> PrintT(<<"TABLES", ToJson(Tables)>>)
    [] OTHER -> TRUE
Verdict == Done("measure") =>
  LET e == TraceLog[c.i] IN
  PrintT(<<"VERDICT", ToJson([line |-> c.i, sid |-> IF "sid" \in DOMAIN e THEN e.sid ELSE "?",
                              bad |-> Law(e), skip |-> Skips(e)])>>)
=============================================================================
