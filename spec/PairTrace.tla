------------------------------ MODULE PairTrace ------------------------------
(* C04 / C05, code -> spec: relations between two integrated runs.                             *)
(*   C04  frame rotation  (L -> Q L Q^T, A -> A Q^T)  must give  A2 = A1 Q^T, f2 = f1,          *)
(*        F2 = Q F1 Q^T;   crystal two-folds on a subset of grains  A -> S A  must give         *)
(*        A2 = S A1 for those grains, identical volumes for all grains, identical F.            *)
(*   C05  rate scaling  (L -> k L, t -> t / k)  must give identical textures and F.             *)
(* Scenario classes are enumerated here and concretised by the harness; each update step of a   *)
(* pair is recorded with integer deviation measures (1e-9 units; volumes as the L1 distance of the distributions)    *)
(* and judged against TWICE the accumulated ODE budget 5e-3 + 1e-3 (N + 2 strain), evaluated   *)
(* on this machine's own N and strain - each of the two runs may use its own budget.            *)
(* The rounding-level agreement observed on the present code is reported, not demanded.         *)
EXTENDS Integers, Sequences, FiniteSets, TLC, Json, IOUtils, Randomization
CONSTANT K    \* size of the seeded sample of each scenario family (0 = whole space)
VARIABLES st, nUpd, strain
vars == <<st, nUpd, strain>>
Fabs == {"A", "B", "C", "D", "E", "EN"}
Regimes == {4, 6}
\* "ss_int": a simple shear handed over as an integer-typed array in the reference frame
\* "axi_cy" / "axi_ex": diagonal velocity gradients whose extreme principal rate lies on y / x (a diagonal matrix is
\* the one input on which "eigenvalues = diagonal entries" shortcuts are tempting, and they need not be sorted)
\* "spinup": a flow that starts from rest (velocity gradient exactly zero at the start of the first update)
Flows == {"ss_xz", "ss_yx", "pure_xy", "axi_c", "gen3d", "trace", "tdep", "xdep", "ss_int", "axi_cy", "axi_ex", "spinup"}
Texs == {"random", "clustered", "girdle", "nonuniform", "single"}
Parts == {1, 5, 20, 100}      \* 100 calls: a fine partition of a short history (total strain 0.05)
\* (chi = 0.9 is left out: with uniform volumes 1/n every grain sits within 50% of the floor 0.9/n and would be skipped)
ParClasses == {[M |-> 0, chi |-> 0], [M |-> 10, chi |-> 0], [M |-> 50, chi |-> 0], [M |-> 50, chi |-> 3], [M |-> 10, chi |-> 3]}
Ns == {4, 8, 20}
QClasses == {"octahedral", "rational", "random"}
SClasses == {"none", "all", "subset"}
Ks == {"1e-16", "1e-15", "1e-12", "1e-9", "1e-4", "1e-2", "1", "1e3"}
FrameScens(dummy) == {[kind |-> "frame", fab |-> f, regime |-> r, flow |-> fl, tex |-> t, part |-> p, par |-> pc, n |-> n, q |-> q, s |-> s] :
                    f \in Fabs, r \in Regimes, fl \in Flows, t \in Texs, p \in Parts, pc \in ParClasses, n \in Ns, q \in QClasses, s \in SClasses}
ScaleScens(dummy) == {[kind |-> "scale", fab |-> f, regime |-> r, flow |-> fl, tex |-> t, part |-> p, par |-> pc, n |-> n, k |-> k] :
                    f \in Fabs, r \in Regimes, fl \in Flows, t \in Texs, p \in Parts, pc \in ParClasses, n \in Ns, k \in Ks}
FabSeq == <<"A", "B", "C", "D", "E", "EN">>
RegSeq == <<4, 6>>
QSeq == <<"octahedral", "rational", "random">>
FlowSeq == <<"ss_xz", "ss_yx", "pure_xy", "axi_c", "gen3d", "trace", "tdep", "xdep", "ss_int", "axi_cy", "axi_ex", "spinup">>
ASSUME {FlowSeq[k] : k \in 1..12} = Flows /\ {FabSeq[k] : k \in 1..6} = Fabs
\* seeded sample, stratified so that EVERY (frame class, flow, regime) triple of the frame family occurs (fabrics cycle) and
\* EVERY (fabric, rate factor, coarse / fine partition) triple of the scale family occurs; the other dimensions are drawn by TLC
Reps == IF K < 100 THEN 1 ELSE K \div 40
BigNs == IF K < 100 THEN {4633} ELSE {4633, 5000}   \* 5000: above the switch to the banded Jacobian (larger counts need tens of GB)
ScenInit == /\ nUpd = 0 /\ strain = 0
            /\ st \in (IF K = 0 THEN FrameScens(0) \cup ScaleScens(0)
                        ELSE {[kind |-> "frame", fab |-> FabSeq[((a + b + c + i) % 6) + 1], regime |-> RegSeq[c], flow |-> FlowSeq[b],
                               tex |-> RandomElement(Texs), part |-> RandomElement(Parts), par |-> RandomElement(ParClasses), n |-> RandomElement(Ns),
                               q |-> QSeq[a], s |-> RandomElement(SClasses), i |-> i] : a \in 1..3, b \in 1..12, c \in 1..2, i \in 1..Reps}
                             \cup
                             \* (the flow is stratified too: for every rate factor k the twelve (fabric, partition) pairs run
                             \*  through all twelve flow classes - steady, time- and position-dependent - so that no seed can
                             \*  leave a (k, flow) pair out)
                             {[kind |-> "scale", fab |-> FabSeq[a], regime |-> RandomElement(Regimes),
                               flow |-> FlowSeq[((a + 6 * pc + i) % 12) + 1],
                               tex |-> RandomElement(Texs), part |-> IF pc = 1 THEN 100 ELSE RandomElement(Parts \ {100}),
                               par |-> RandomElement(ParClasses), n |-> RandomElement(Ns),
                               k |-> k, i |-> i] : a \in 1..6, k \in Ks, pc \in {0, 1}, i \in 1..Reps}
                             \cup
                             \* large aggregates (thousands of grains, as production runs use): olivine and enstatite, a
                             \* geological and a laboratory rate factor, one update over the whole history
                             {[kind |-> "scale", fab |-> f, regime |-> 4, flow |-> (IF k = "1e3" THEN "gen3d" ELSE "ss_xz"), tex |-> "random", part |-> 1,
                               par |-> [M |-> 50, chi |-> 3], n |-> n, k |-> k, i |-> 1] : f \in {"A", "EN"}, k \in {"1e-15", "1e3"}, n \in BigNs}
                             \cup
                             {[kind |-> "frame", fab |-> f, regime |-> 6, flow |-> "gen3d", tex |-> "random", part |-> 1,
                               par |-> [M |-> 50, chi |-> 3], n |-> n, q |-> "random", s |-> "subset", i |-> 1] : f \in {"A", "EN"}, n \in BigNs})
ScenNext == UNCHANGED vars
\* the harness asks for a seeded subset: emit only scenarios whose index is selected
EmitScen == PrintT(<<"SCEN", ToJson(st)>>)

\* ---------------------------------------------------------------- judge
TraceLog == ndJsonDeserialize(IOEnv.TRACE_FILE)
Budget(n, e6) == 5000000 + 1000000 * n + 2 * e6          \* 1e-9 units, e6 = strain * 1e6
Rounding == 1000                                          \* 1e-12 in 1e-9... reported only
JudgeInit == st = [kind |-> "judge", l |-> 1] /\ nUpd = 0 /\ strain = 0
Ev == TraceLog[st.l]
JudgeNext == /\ st.l <= Len(TraceLog)
             /\ st' = [kind |-> "judge", l |-> st.l + 1]
             /\ IF Ev.ev = "Start" THEN nUpd' = 0 /\ strain' = 0
                ELSE nUpd' = nUpd + 1 /\ strain' = strain + Ev.dstrain_e6
Clauses(e) ==
    IF e.ev # "Step" THEN {}
    ELSE LET allowed == 2 * Budget(nUpd, strain) IN
         (IF e.dA_e9 > allowed THEN {e.rel \o ":orientations"} ELSE {})
         \cup (IF e.df_e9 > allowed THEN {e.rel \o ":volume-fractions"} ELSE {})
         \cup (IF e.dG_e9 > allowed THEN {e.rel \o ":deformation-gradient"} ELSE {})
Verdict == IF st.kind = "judge" /\ st.l > 1
           THEN LET e == TraceLog[st.l - 1] c == Clauses(e) IN
                (IF c = {} THEN TRUE ELSE PrintT(<<"REJECT", ToJson([id |-> e.id, clauses |-> c, n |-> nUpd, strain_e6 |-> strain])>>))
                /\ (IF st.l = Len(TraceLog) + 1 THEN PrintT(<<"DONE", Len(TraceLog)>>) ELSE TRUE)
           ELSE TRUE
=============================================================================
