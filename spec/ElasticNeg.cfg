\* C12 negative control: the unweighted sum of squares of the 21 entries is NOT rotation invariant
INIT Init
NEXT Next
CONSTANTS
  Tier = "quick"
  Mode = "negative"
INVARIANT NegFlatNormInvariant
CHECK_DEADLOCK FALSE
