----------------------------- MODULE MIndexTrace -----------------------------
(***************************************************************************)
(* Layer C (C14): the M-index is a frame-independent texture-strength      *)
(* scalar in [0, 1].  This module is the JUDGE of executions of the real   *)
(* pydrex.diagnostics.misorientation_index / pydrex.stats.                 *)
(* misorientations_random recorded by harness/checks/C14.py, and the       *)
(* GENERATOR of the scenario classes those executions are drawn from.      *)
(* It is observational: it never predicts the value of an M-index (TLC has *)
(* no reals, and the histogram of a float texture is not a TLA+ object);   *)
(* it states what the property says about RELATIONS between runs and about *)
(* bounds, on integer measures, and it owns every threshold.               *)
(*                                                                         *)
(* FIRST USE (cfgs MIndexScen, MIndexScen_thorough): scenario table.       *)
(*   One initial state per scenario class                                  *)
(*     lattice system (all six members of Grimmer's Table 1)               *)
(*     x texture class (uniform, single, clustered, girdle)                *)
(*     x size n (CONSTANT Sizes) x repetition (1..Reps)                    *)
(*   carrying the transformations to apply (permutation, two frame         *)
(*   rotations, two-fold relabelling of one grain / of half the grains     *)
(*   about each candidate lattice two-fold), thinned by cost level for     *)
(*   large n, plus one "theory" scenario per system.  Emitted as           *)
(*   <<"SCEN", ToJson(record)>>.  The table also carries what the harness  *)
(*   must not decide itself: theta_max per system (admissible range of     *)
(*   the quadrature), the candidate two-fold axes and whether invariance   *)
(*   is required for all of them or for at least one (see TwoFold).        *)
(*   ASSUMEs checked by TLC: integer square root exact on every value      *)
(*   used, every threshold fits 32 bits, bounds are monotone in n, the     *)
(*   relation tolerance is below 5e-2 wherever it is applied.              *)
(*                                                                         *)
(* SECOND USE (cfg MIndexTrace): trace validation.                         *)
(*   ndjson, many traces per file (field tid), lines                       *)
(*   {tid, ev:"base", system, texture, n, exc, finite,                     *)
(*        m_e6, below0_e6, above1_e6                                       *)
(*        [, mult, texc, tsum_e6, tfirst_e6, tlast_e6]}   (halfturn only)  *)
(*        exc "None" | exception class of misorientation_index(o, system)  *)
(*        m_e6 = M clipped to [0, 2] in 1e-6; below0/above1 = max(0, -M),  *)
(*        max(0, M - 1) in 1e-6                                            *)
(*   {tid, ev:"pair", transform, axes, exc, finite, diffs_e9}              *)
(*        second run on the transformed texture of the same tid;           *)
(*        diffs_e9[k] = |M_base - M_transformed| in 1e-9 for axes[k]       *)
(*        (one entry, axis "-", for permutation / frame rotations)         *)
(*   {tid, ev:"theory", system, exc, finite, int_fine_e6, int_coarse_e6}   *)
(*        |integral over [0, theta_max] of the theoretical density - 1|    *)
(*        in 1e-6: fine = trapezoid of the point density at 0.01 degree,   *)
(*        coarse = the 1-degree bin sum the index itself uses.             *)
(*   The machine remembers the base line of the current tid (cur): the     *)
(*   relation tolerance and the sampling bound are functions of ITS n and  *)
(*   system, not of anything the pair line says.                           *)
(*                                                                         *)
(* THE LAW (clauses; a verdict names the clause)                           *)
(*   raises            misorientation_index raised for >= 2 orientations   *)
(*   finite            the result is NaN / infinite                        *)
(*   range             M < -1e-3 or M > 1 + 1e-3                           *)
(*   permutation       |dM| > RelTol(P) after reordering the grains        *)
(*   frame-rotation    |dM| > RelTol(P) after a -> a.Q^T (rigid rotation)  *)
(*   twofold-relabelling  |dM| > RelTol(P) after a_g -> S.a_g on a subset  *)
(*                     of grains, S a lattice two-fold (TwoFold below)     *)
(*   uniform-near-0    M_uniform > UniformBound(n, theta_max)              *)
(*   single-near-1     M_single < 0.99                                     *)
(*   theory-raises / theory-integral   density raised / |int - 1| > 1e-3   *)
(*   halfturn-closed-form   see EDGE TEXTURES                              *)
(*                                                                         *)
(*   EDGE TEXTURES (the admissible range [0, theta_max] is CLOSED).  Two   *)
(*   grains related by an exact half-turn have quaternion inner product 0, *)
(*   i.e. misorientation exactly 180 degrees; with no lattice symmetry     *)
(*   (triclinic: the only operator is the identity) nothing reduces it, so *)
(*   the pair sits exactly at theta_max = 180 and belongs to the LAST bin. *)
(*   EdgeSystems are the systems for which the specification can name such *)
(*   orientations (triclinic).  Two texture classes exercise that edge:    *)
(*    "halfturn"  a multiset over the four orientations {identity,         *)
(*       two-folds about x, y, z} with multiplicities mult (HalfturnMults, *)
(*       at least two of them non-zero; <<1,1,0,0>>, <<1,1,1,0>>,          *)
(*       <<1,1,1,1>> are the pure mutually half-turned sets, <<k,k,0,0>>   *)
(*       k twin pairs).  Two grains are either equal (angle 0, FIRST bin)  *)
(*       or a half-turn apart (angle theta_max, LAST bin), so with         *)
(*         Z = sum_i C(mult_i, 2),  H = sum_{i<j} mult_i mult_j,  P = Z+H  *)
(*       the observed histogram is (Z/P) on the first and (H/P) on the     *)
(*       last bin - exact integers owned by this module - and the          *)
(*       definition M = 1/2 sum_i |theory_i - observed_i| (1-degree bins)  *)
(*       gives the closed form                                             *)
(*         M = (T - t_1 - t_L + |t_1 - Z/P| + |t_L - H/P|) / 2,            *)
(*       T = sum_i theory_i, t_1 / t_L = theory mass of the first / last   *)
(*       bin.  T, t_1, t_L are LEAVES: the harness evaluates the real      *)
(*       misorientations_random on the bins and logs tsum_e6, tfirst_e6,   *)
(*       tlast_e6 (texc = exception class) on the base line; the law       *)
(*       |2 m - (...)| <= 2e-5 is evaluated here (halfturn-closed-form).   *)
(*       A histogram that loses the pairs at theta_max gives NaN for the   *)
(*       pure sets and a silently shifted M otherwise - both rejected.     *)
(*       No pair is near an interior bin edge (angles stay within rounding *)
(*       of 0 or 180 after any rigid rotation, and cannot exceed 180), so  *)
(*       relations on this class get NO flip allowance and are decidable   *)
(*       for every n: RelTol = 1e-6.                                       *)
(*    "twinned"  n/2 random grains plus their exact half-turn partners     *)
(*       (inner product 0 in the float32 arithmetic of the histogram):     *)
(*       n/2 of the P pairs sit exactly at theta_max.  Only the ordinary   *)
(*       clauses (finite, range, relations) are demanded.  Note: relations *)
(*       cannot expose lost theta_max pairs here - in float32 an angle     *)
(*       within 1e-5 degree of 180 rounds to exactly 180, so the partners  *)
(*       stay AT theta_max after a rigid rotation and both runs lose the   *)
(*       same pairs (measured); the halfturn closed form is the oracle.    *)
(*                                                                         *)
(*   RelTol(P) = 1e-6 + Flips(P)/P,  P = n(n-1)/2 pairs,                   *)
(*   Flips(P) = 2 + P div 5000: a pair whose angle sits on a bin edge may  *)
(*   change bin under rounding; one such flip moves M by at most 1/P.      *)
(*   (The implementation stores quaternions as float32, angle noise        *)
(*   ~1e-5 degree; on the clean triclinic system 0.04 flips per comparison *)
(*   were observed at P = 19900.)  Where RelTol would exceed 5e-2 (P < 40) *)
(*   the relation is not decidable and is SKIPped, not passed.             *)
(*                                                                         *)
(*   UniformBound(n, B) = (sqrt(B)/2 + 6 s) / sqrt(P) + 1e-3,              *)
(*   s = sqrt((1 - 2/pi)/4) = 0.3014, B = theta_max = number of 1-degree   *)
(*   bins.  Derivation: for Haar-uniform orientations the P pairwise       *)
(*   misorientations are pairwise independent and follow the theoretical   *)
(*   density p, so the count c_i of bin i has mean P p_i and variance      *)
(*   exactly P p_i (1 - p_i); M = 1/2 sum_i |c_i/P - p_i| hence            *)
(*   E[M] <= 1/2 sum_i sqrt(p_i/P) <= sqrt(B)/(2 sqrt(P)) (Jensen, then    *)
(*   Cauchy-Schwarz: rigorous).  The 6-sigma term uses the multinomial /   *)
(*   normal approximation Var|d_i| = (1 - 2/pi) p_i/P, Var M = s^2/P (not  *)
(*   rigorous because triples of pairs are dependent; measured on the      *)
(*   triclinic system: sd(M) sqrt(P) = 0.29 / 0.30 / 0.31 at n = 20 / 80 / *)
(*   200).  1e-3 is the statement's quadrature allowance.  Where the bound *)
(*   exceeds 1 (P < B) the clause is SKIPped.  The harness confirms an     *)
(*   excursion on two fresh seeds (again judged here) before reporting.    *)
(*                                                                         *)
(*   TwoFold(system): lattice two-folds in the standard setting of the     *)
(*   proper point groups of Grimmer's Table 1 (1, 2, 222, 32, 422, 622):   *)
(*   orthorhombic, tetragonal, hexagonal - a, b and c are all two-fold     *)
(*   axes (mode "all": invariance required for each); monoclinic - ONE     *)
(*   unique two-fold whose name depends on the setting, rhombohedral - one *)
(*   two-fold along a or b depending on the setting (mode "any": the       *)
(*   clause fails only if no candidate axis leaves M unchanged, so neither *)
(*   convention can cause a false alarm); triclinic - none.                *)
(*                                                                         *)
(* Verdict lines <<"REJECT", tid, line, clause>>, <<"SKIP", tid, line,     *)
(* why>>, one <<"DONE", lines, rejected>> at the end; the run never stops  *)
(* at a rejection.  Clauses starting with "trace-" blame the recorder.     *)
(***************************************************************************)
EXTENDS Integers, Sequences, FiniteSets, TLC, Json, IOUtils

CONSTANTS Sizes,        \* grain counts of the scenario table
          Reps,         \* seeded repetitions per class (full-cost sizes only)
          FullUpTo,     \* n <= FullUpTo: every texture class and relation
          ReducedUpTo   \* FullUpTo < n <= ReducedUpTo: thinned; above: minimal

\* ================================================================== tables (Grimmer 1979, Table 1)
Pairs(n) == (n * (n - 1)) \div 2
Abs(x) == IF x < 0 THEN -x ELSE x

Systems == <<"triclinic", "monoclinic", "orthorhombic", "rhombohedral", "tetragonal", "hexagonal">>
SystemSet == {Systems[k] : k \in 1..Len(Systems)}
ThetaMax(s) == CASE s = "triclinic" -> 180 [] s = "monoclinic" -> 180
                 [] s = "orthorhombic" -> 120 [] s = "rhombohedral" -> 120
                 [] s = "tetragonal" -> 90 [] s = "hexagonal" -> 90
\* order of the proper point group (number of equivalent descriptions of one orientation)
GroupOrder(s) == CASE s = "triclinic" -> 1 [] s = "monoclinic" -> 2
                   [] s = "orthorhombic" -> 4 [] s = "rhombohedral" -> 6
                   [] s = "tetragonal" -> 8 [] s = "hexagonal" -> 12
TwoFoldAxes(s) == CASE s = "triclinic" -> <<>>
                    [] s = "monoclinic" -> <<"a", "b", "c">>
                    [] s = "orthorhombic" -> <<"a", "b", "c">>
                    [] s = "rhombohedral" -> <<"a", "b">>
                    [] s = "tetragonal" -> <<"a", "b", "c">>
                    [] s = "hexagonal" -> <<"a", "b", "c">>
TwoFoldMode(s) == CASE s \in {"orthorhombic", "tetragonal", "hexagonal"} -> "all"
                    [] s \in {"monoclinic", "rhombohedral"} -> "any"
                    [] OTHER -> "none"

GenericTextures == {"uniform", "single", "clustered", "girdle"}
EdgeTextures == {"halfturn", "twinned"}        \* pairs exactly at theta_max (closed upper end of the range)
Textures == GenericTextures \cup EdgeTextures \cup {"halves"}
EdgeSystems == {"triclinic"}                   \* systems where an exact half-turn is exactly theta_max apart
\* multiplicities of {identity, two-folds about x, y, z} (which orientation gets which count is the harness's draw)
HalfturnMults == {<<1, 1, 0, 0>>, <<1, 1, 1, 0>>, <<1, 1, 1, 1>>, <<2, 1, 0, 0>>, <<2, 2, 0, 0>>, <<3, 2, 1, 0>>,
                  <<5, 5, 5, 5>>, <<10, 10, 0, 0>>, <<20, 15, 10, 5>>, <<30, 30, 0, 0>>}
MultN(m) == m[1] + m[2] + m[3] + m[4]
MultZ(m) == Pairs(m[1]) + Pairs(m[2]) + Pairs(m[3]) + Pairs(m[4])                       \* pairs of equal orientations
MultH(m) == m[1]*m[2] + m[1]*m[3] + m[1]*m[4] + m[2]*m[3] + m[2]*m[4] + m[3]*m[4]       \* pairs a half-turn apart
MultOK(m) == /\ \A k \in 1..4 : m[k] \in 0..60
             /\ Cardinality({k \in 1..4 : m[k] > 0}) >= 2
             /\ Pairs(MultN(m)) <= 2000                                                 \* Z * 1e6 stays below 2^31
Relations == {"permutation", "frame-generic", "frame-quarter", "twofold-one", "twofold-half"}
IsTwoFold(t) == t \in {"twofold-one", "twofold-half"}
ClauseOf(t) == CASE t = "permutation" -> "permutation"
                 [] t \in {"frame-generic", "frame-quarter"} -> "frame-rotation"
                 [] IsTwoFold(t) -> "twofold-relabelling"

\* ================================================================== thresholds (integer arithmetic, 32-bit safe)

RECURSIVE ISqrtIter(_, _, _)
ISqrtIter(x, lo, hi) == IF lo >= hi THEN lo
                        ELSE LET mid == (lo + hi + 1) \div 2 IN
                             IF mid * mid <= x THEN ISqrtIter(x, mid, hi) ELSE ISqrtIter(x, lo, mid - 1)
ISqrt(x) == ISqrtIter(x, 0, 46340)          \* 46340^2 < 2^31

RangeTolE6 == 1000                          \* 1e-3: the statement's quadrature allowance
SingleMinE6 == 990000                       \* single-orientation texture: M >= 0.99
IntegralTolE6 == 1000                       \* |integral of the theoretical density - 1| <= 1e-3

Flips(P) == 2 + P \div 5000
RelVacuous(P) == P < 40
RelTolE9(P) == 1000 + Flips(P) * (1000000000 \div P)         \* 1e-6 + Flips/P  (P >= 40)
\* halfturn textures: every angle is at the closed end of the range, no interior bin edge is near
RelVacuousFor(tx, P) == IF tx = "halfturn" THEN FALSE ELSE RelVacuous(P)
RelTolForE9(tx, P) == IF tx = "halfturn" THEN 1000 ELSE RelTolE9(P)
ClosedTolE6 == 10                           \* closed form of the halfturn class: 1e-5

SixSigmaE3 == 1809                          \* 6 * sqrt((1 - 2/pi)/4) = 1.8085, in 1e-3
UniformVacuous(n, B) == Pairs(n) < B
UniformBoundE6(n, B) ==                     \* (sqrt(B)/2 + 1.809)/sqrt(P) + 1e-3, in 1e-6
    ((ISqrt(B * 1000000) \div 2 + SixSigmaE3) * 10000) \div ISqrt(100 * Pairs(n)) + RangeTolE6

\* ================================================================== scenario table
Level(n) == IF n <= FullUpTo THEN "full" ELSE IF n <= ReducedUpTo THEN "reduced" ELSE "minimal"
TexturesFor(n) == CASE Level(n) = "full" -> GenericTextures
                    [] Level(n) = "reduced" -> {"uniform"}
                    [] Level(n) = "minimal" -> {"uniform"}
RelationsFor(s, n) ==
    LET base == CASE Level(n) = "full" -> Relations
                  [] Level(n) = "reduced" -> {"permutation", "frame-generic", "twofold-half"}
                  [] Level(n) = "minimal" -> {"frame-generic"}
    IN IF TwoFoldMode(s) = "none" THEN {t \in base : ~IsTwoFold(t)} ELSE base
RepsFor(n) == IF Level(n) = "full" THEN Reps ELSE 1
SetToSeq(S) == LET RECURSIVE Build(_)
                   Build(T) == IF T = {} THEN <<>> ELSE LET x == CHOOSE y \in T : TRUE IN <<x>> \o Build(T \ {x})
               IN Build(S)

IndexScenarios ==
    {[kind |-> "index", system |-> Systems[k], sysno |-> k, texture |-> tx, n |-> n, rep |-> r,
      level |-> Level(n), theta_max |-> ThetaMax(Systems[k]), group_order |-> GroupOrder(Systems[k]),
      relations |-> SetToSeq(RelationsFor(Systems[k], n)),
      axes |-> TwoFoldAxes(Systems[k]), mode |-> TwoFoldMode(Systems[k])] :
        k \in 1..Len(Systems), tx \in GenericTextures, n \in Sizes, r \in 1..Reps}
EdgeRecord(k, tx, n, r, m) ==
    [kind |-> "index", system |-> Systems[k], sysno |-> k, texture |-> tx, n |-> n, rep |-> r, mult |-> m,
     level |-> "full", theta_max |-> ThetaMax(Systems[k]), group_order |-> GroupOrder(Systems[k]),
     relations |-> SetToSeq({t \in Relations : ~IsTwoFold(t) \/ TwoFoldMode(Systems[k]) # "none"}),
     axes |-> TwoFoldAxes(Systems[k]), mode |-> TwoFoldMode(Systems[k])]
EdgeSystemNos == {j \in 1..Len(Systems) : Systems[j] \in EdgeSystems}
EdgeScenarios ==
    {EdgeRecord(k, "halfturn", MultN(m), r, m) : k \in EdgeSystemNos, m \in HalfturnMults, r \in 1..Reps}
    \cup {EdgeRecord(k, "twinned", n, r, <<>>) : k \in EdgeSystemNos, r \in 1..Reps,
                                                n \in {x \in Sizes : x % 2 = 0 /\ x >= 20 /\ Level(x) = "full"}}
TheoryScenarios ==
    {[kind |-> "theory", system |-> Systems[k], sysno |-> k, theta_max |-> ThetaMax(Systems[k]),
      group_order |-> GroupOrder(Systems[k])] : k \in 1..Len(Systems)}
\* "halves": a grain list that is NOT exchangeable (first half clustered, second half uniformly random) with more
\* grains than any plausible internal chunk of grains or pairs - reordering the list must still not matter
BlockSizes == IF 2000 \in Sizes THEN {640, 1030} ELSE {640}
BlockScenarios ==
    {[kind |-> "index", system |-> Systems[k], sysno |-> k, texture |-> "halves", n |-> n, rep |-> 1,
      level |-> "blocks", theta_max |-> ThetaMax(Systems[k]), group_order |-> GroupOrder(Systems[k]),
      relations |-> <<"permutation">>, axes |-> TwoFoldAxes(Systems[k]), mode |-> TwoFoldMode(Systems[k])] :
        k \in {j \in 1..Len(Systems) : Systems[j] \in {"triclinic", "orthorhombic"}}, n \in BlockSizes}
Scenarios == {sc \in IndexScenarios : sc.texture \in TexturesFor(sc.n) /\ sc.rep <= RepsFor(sc.n)}
             \cup EdgeScenarios \cup BlockScenarios
             \cup TheoryScenarios

\* design-level lemmas about the law itself (TLC evaluates them once, whatever the cfg)
ISqrtExact(x) == LET s == ISqrt(x) IN s * s <= x /\ (s + 1) * (s + 1) > x
ASSUME \A s \in SystemSet : ISqrtExact(ThetaMax(s) * 1000000)
ASSUME \A n \in Sizes \cup {2, 3, 9, 10, 20, 80, 200, 2000} : n >= 2 /\ ISqrtExact(100 * Pairs(n))
ASSUME \A n \in Sizes : \A s \in SystemSet :
          ~UniformVacuous(n, ThetaMax(s)) =>
             /\ UniformBoundE6(n, ThetaMax(s)) < 2 * 1000000          \* at most (1/2 + 1.81/sqrt(B)) + 1e-3
             /\ \A m \in Sizes : m > n => UniformBoundE6(m, ThetaMax(s)) <= UniformBoundE6(n, ThetaMax(s))
ASSUME \A n \in Sizes : ~RelVacuous(Pairs(n)) =>
          /\ RelTolE9(Pairs(n)) <= 50000000 + 1000                    \* never looser than 5e-2
          /\ RelTolE9(Pairs(n)) >= 1000
ASSUME RelVacuous(Pairs(9)) /\ ~RelVacuous(Pairs(10))
\* the edge classes exist only where an exact half-turn is theta_max apart: no symmetry operator, theta_max = 180
ASSUME \A s \in EdgeSystems : GroupOrder(s) = 1 /\ ThetaMax(s) = 180
ASSUME \A m \in HalfturnMults : MultOK(m) /\ MultZ(m) + MultH(m) = Pairs(MultN(m)) /\ MultH(m) > 0
\* three mutually half-turned grains: all 3 pairs at theta_max; 30 twin pairs twice over: 870 equal, 900 half-turned
ASSUME MultZ(<<1, 1, 1, 0>>) = 0 /\ MultH(<<1, 1, 1, 0>>) = 3 /\ MultZ(<<30, 30, 0, 0>>) = 870 /\ MultH(<<30, 30, 0, 0>>) = 900
ASSUME \A s \in SystemSet : /\ Len(TwoFoldAxes(s)) = 0 <=> TwoFoldMode(s) = "none"
                            /\ ThetaMax(s) \in {90, 120, 180}
\* e.g. 200 grains, 180 bins: (6.708 + 1.809)/141.07 + 0.001 = 0.0614
ASSUME UniformBoundE6(200, 180) \in 61300..61500

\* ================================================================== variables (shared by both uses)
VARIABLES l,      \* trace: next line to consume            | generator: 0
          cur,    \* trace: base line of the current tid     | generator: the scenario
          last,   \* trace: verdicts of the line consumed last
          nbad    \* trace: number of REJECT verdicts so far
tvars == <<l, cur, last, nbad>>

GInit == /\ cur \in Scenarios /\ l = 0 /\ last = <<>> /\ nbad = 0
GNext == UNCHANGED tvars
EmitScenario == PrintT(<<"SCEN", ToJson(cur)>>)

\* ================================================================== trace machine
TraceLog == ndJsonDeserialize(IOEnv.TRACE_FILE)
NLines == Len(TraceLog)
Ev == TraceLog[l]
NoBase == [tid |-> -1, system |-> "none", texture |-> "none", n |-> 0, ok |-> FALSE]

Rej(c) == <<<<"REJECT", c>>>>
Skp(c) == <<<<"SKIP", c>>>>
None == <<>>

BaseVerdicts ==
    IF Ev.system \notin SystemSet \/ Ev.texture \notin Textures \/ Ev.n < 2 THEN Rej("trace-unknown-scenario-class")
    ELSE IF Ev.texture \in EdgeTextures /\ Ev.system \notin EdgeSystems THEN Rej("trace-unknown-scenario-class")
    ELSE IF Ev.exc # "None" THEN Rej("raises")
    ELSE IF ~Ev.finite THEN Rej("finite")
    ELSE LET B == ThetaMax(Ev.system) IN
         (IF Ev.below0_e6 > RangeTolE6 \/ Ev.above1_e6 > RangeTolE6 THEN Rej("range") ELSE None)
      \o (IF Ev.texture # "uniform" THEN None
          ELSE IF UniformVacuous(Ev.n, B) THEN Skp("uniform-bound-vacuous")
          ELSE IF Ev.m_e6 > UniformBoundE6(Ev.n, B) THEN Rej("uniform-near-0") ELSE None)
      \o (IF Ev.texture = "single" /\ Ev.m_e6 < SingleMinE6 THEN Rej("single-near-1") ELSE None)
      \o (IF Ev.texture # "halfturn" THEN None
          ELSE IF {"mult", "texc", "tsum_e6", "tfirst_e6", "tlast_e6"} \ DOMAIN Ev # {}
               THEN Rej("trace-halfturn-without-leaves")
          ELSE IF Len(Ev.mult) # 4 THEN Rej("trace-halfturn-bad-multiplicities")
          ELSE LET m == <<Ev.mult[1], Ev.mult[2], Ev.mult[3], Ev.mult[4]>> IN
               IF ~MultOK(m) \/ MultN(m) # Ev.n THEN Rej("trace-halfturn-bad-multiplicities")
               ELSE IF Ev.texc # "None" THEN Skp("closed-form-leaves-unavailable")
               ELSE LET P == Pairs(Ev.n)
                        zf == (MultZ(m) * 1000000 + P \div 2) \div P        \* observed mass of the first bin, 1e-6
                        hf == 1000000 - zf                                   \* observed mass of the last bin
                        expect2 == Ev.tsum_e6 - Ev.tfirst_e6 - Ev.tlast_e6
                                   + Abs(Ev.tfirst_e6 - zf) + Abs(Ev.tlast_e6 - hf) IN
                    IF Abs(2 * Ev.m_e6 - expect2) > 2 * ClosedTolE6 THEN Rej("halfturn-closed-form") ELSE None)

BaseNext == IF Ev.system \in SystemSet /\ Ev.n >= 2
            THEN [tid |-> Ev.tid, system |-> Ev.system, texture |-> Ev.texture, n |-> Ev.n,
                  ok |-> (Ev.exc = "None" /\ Ev.finite)]
            ELSE [NoBase EXCEPT !.tid = Ev.tid]

Exceeds(k, tol) == Ev.diffs_e9[k] > tol
PairVerdicts ==
    IF cur.tid # Ev.tid \/ cur.system = "none" THEN Rej("trace-pair-without-base")
    ELSE IF Ev.transform \notin Relations THEN Rej("trace-unknown-transformation")
    ELSE IF ~cur.ok THEN Skp("base-run-not-evaluable")
    ELSE IF Ev.exc # "None" THEN Rej("raises")
    ELSE IF ~Ev.finite THEN Rej("finite")
    ELSE LET P == Pairs(cur.n)
             K == Len(Ev.diffs_e9)
             mode == IF IsTwoFold(Ev.transform) THEN TwoFoldMode(cur.system) ELSE "all" IN
         IF K = 0 \/ K # Len(Ev.axes) THEN Rej("trace-pair-without-measure")
         ELSE IF IsTwoFold(Ev.transform) /\
                 (mode = "none" \/ {Ev.axes[k] : k \in 1..K} # {TwoFoldAxes(cur.system)[k] : k \in 1..Len(TwoFoldAxes(cur.system))})
              THEN Rej("trace-wrong-twofold-axes")
         ELSE IF RelVacuousFor(cur.texture, P) THEN Skp("relation-tolerance-vacuous")
         ELSE LET tol == RelTolForE9(cur.texture, P)
                  bad == IF mode = "any" THEN \A k \in 1..K : Exceeds(k, tol)
                                          ELSE \E k \in 1..K : Exceeds(k, tol) IN
              IF bad THEN Rej(ClauseOf(Ev.transform)) ELSE None

TheoryVerdicts ==
    IF Ev.system \notin SystemSet THEN Rej("trace-unknown-scenario-class")
    ELSE IF Ev.exc # "None" THEN Rej("theory-raises")
    ELSE IF ~Ev.finite \/ Ev.int_fine_e6 > IntegralTolE6 THEN Rej("theory-integral")
    ELSE None

Verdicts == IF Ev.ev = "base" THEN BaseVerdicts
            ELSE IF Ev.ev = "pair" THEN PairVerdicts
            ELSE IF Ev.ev = "theory" THEN TheoryVerdicts
            ELSE Rej("trace-unknown-event")
Tag(vs) == [k \in 1..Len(vs) |-> <<vs[k][1], Ev.tid, l, vs[k][2]>>]
NRej(vs) == Cardinality({k \in 1..Len(vs) : vs[k][1] = "REJECT"})

TInit == l = 1 /\ cur = NoBase /\ last = <<>> /\ nbad = 0
TNext == /\ l <= NLines
         /\ l' = l + 1
         /\ last' = Tag(Verdicts)
         /\ nbad' = nbad + NRej(Verdicts)
         /\ cur' = IF Ev.ev = "base" THEN BaseNext
                   ELSE IF Ev.ev = "pair" THEN cur
                   ELSE [NoBase EXCEPT !.tid = Ev.tid]

Report == /\ (IF last # <<>> THEN \A k \in 1..Len(last) : PrintT(last[k]) ELSE TRUE)
          /\ (IF l = NLines + 1 THEN PrintT(<<"DONE", NLines, nbad>>) ELSE TRUE)
=============================================================================
