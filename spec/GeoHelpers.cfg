INIT Init
NEXT Next
INVARIANT IdxLemmas
INVARIANT AngleLemmas
INVARIANT RadiusLemma
INVARIANT Emit
CHECK_DEADLOCK FALSE
