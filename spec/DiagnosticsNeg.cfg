INIT GInit
NEXT GNext
CONSTANTS
  MaxN = 2
  LemmaN = 0
  FrameRots <- SmallRots
  FseRots <- OctaRots
  AuxSel <- AuxQuick
  Pats <- PatsQuick
  StretchVals <- StretchNeg
  TanVals <- TanQuick
INVARIANT NegColumnScatter
CHECK_DEADLOCK FALSE
