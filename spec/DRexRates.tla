----------------------------- MODULE DRexRates ------------------------------
(***************************************************************************)
(* Layer A: the rates returned by the CPO solver for an aggregate, as term *)
(* programs over the exact kernel (C02), the conservation lemmas (C03) and *)
(* the frame / symmetry lemmas (C04).  Also the case generator.            *)
(*                                                                         *)
(* Per grain g (suffix _g):                                                *)
(*   bi_g = spow(r_int, n)   bm_g = spow(r_min, n)                         *)
(*   g0_g = gdiv(R2(bi,bm), R1(bi,bm))                                     *)
(*   dA_g[p][q] = U[p][q] - V[p][q](bi,bm) * g0                            *)
(*   rho_s = (1/tau_s)^(n-p) |beta_s g0|^(p/n)   s = 1..3 (three fixed     *)
(*           terms in documented slip-system order, as the reference code) *)
(*   E_g = sum_s rho_s exp(-lambda rho_s^2)                                *)
(* Aggregate:  Ebar = sum_h f_h E_h ;  df_g = phi M f_g (Ebar - E_g)       *)
(* frictional_yielding damps both rates by the documented factor 3/10.     *)
(***************************************************************************)
EXTENDS DRexKernel, Term, Json

Sfx(name, g) == name \o "_" \o ToString(g)

\* term for beta_s of grain g (olivine: by role; enstatite: constant)
BetaTerm(k, s, g) ==
    LET b == k.beta[s] IN
    IF b = PZero THEN EInt(0)
    ELSE IF b = PConst(QOne) THEN EInt(1)
    ELSE IF b = PVar(2) THEN EVar(Sfx("bi", g)) ELSE EVar(Sfx("bm", g))

\* (1/tau_s)^(n-p): tau infinite -> the documented value of 0^(n-p) (0 for n > p)
InvTauPow(k, s) == EPow(EQ(k.it[s]), ESub(EParam("n"), EParam("p")))

GrainDefs(k, g) ==
    LET bi == Sfx("bi", g)  bm == Sfx("bm", g)  g0 == Sfx("g0", g)
        rho(s) == EMul(InvTauPow(k, s),
                       EPow(EAbs(EMul(BetaTerm(k, s, g), EVar(g0))), EDiv(EParam("p"), EParam("n"))))
        en(s) == EMul(EVar(Sfx("rho" \o ToString(s), g)),
                      EExp(ENeg(EMul(EParam("lam"), EMul(EVar(Sfx("rho" \o ToString(s), g)), EVar(Sfx("rho" \o ToString(s), g)))))))
    IN << <<bi, ESPow(EQ(k.rint), EParam("n"))>>,
          <<bm, ESPow(EQ(k.rmin), EParam("n"))>>,
          <<g0, IF k.limit THEN EMul(EParam("delta"), EGDivPoly(k.R2lin, k.R1, bi, bm))
                ELSE EGDivPoly(k.R2, k.R1, bi, bm)>>,
          <<Sfx("rho1", g), rho(1)>>, <<Sfx("rho2", g), rho(2)>>, <<Sfx("rho3", g), rho(3)>>,
          <<Sfx("E", g), EAdd(EAdd(en(1), en(2)), en(3))>> >>

\* dA entry as a term: U - V(bi,bm) * g0, damped in the yielding regime
Damp(regime) == IF regime = 6 THEN <<3, 10>> ELSE QOne
RateO(k, g, regime, x) ==
    EMul(EQ(Damp(regime)),
         ESub(EQ(k.U[x]), EMul(EPolyAt(k.V[x], Sfx("bi", g), Sfx("bm", g)), EVar(Sfx("g0", g)))))

Grains(c) == 1..Len(c.As)
Kernels(c) == [g \in Grains(c) |-> Kernel(c.fab, c.As[g], c.L)]
CaseProgram(c, ks) ==
    LET n == Len(c.As)
        ebar == ESum([g \in 1..n |-> EMul(EQ(c.f[g]), EVar(Sfx("E", g)))])
    IN [ fab |-> c.fab, regime |-> c.regime, L |-> MatToSeq(c.L), limit |-> FALSE,
         As |-> [g \in 1..n |-> MatToSeq(c.As[g])], f |-> c.f,
         tie |-> [g \in 1..n |-> ks[g].tie], dead |-> [g \in 1..n |-> ks[g].dead],
         unresolved |-> [g \in 1..n |-> ks[g].unresolved],
         roles |-> [g \in 1..n |-> ks[g].roles],
         defs |-> [g \in 1..n |-> GrainDefs(ks[g], g)],
         ebar |-> ebar,
         dA |-> [g \in 1..n |-> [p \in I3 |-> [q \in I3 |-> RateO(ks[g], g, c.regime, <<p, q>>)]]],
         df |-> [g \in 1..n |->
                   EMul(EQ(Damp(c.regime)),
                        EMul(EMul(EParam("phi"), EParam("M")),
                             EMul(EQ(c.f[g]), ESub(EVar("Ebar"), EVar(Sfx("E", g))))))],
         lemmas |-> \A g \in 1..n : KernelLemmas(ks[g]) ]

\* ---------------------------------------------------------------- aggregate law (C03), exact
\* df_g = phi M f_g (sum_h f_h E_h - E_g) over rationals, for free rational energies
AggRate(phi, M, f, E) ==
    LET n == Len(f)
        ebar == QSumSet(LAMBDA h : QMul(f[h], E[h]), 1..n)
    IN [g \in 1..n |-> QMul(QMul(phi, M), QMul(f[g], QSub(ebar, E[g])))]
AggLemmas(phi, M, f, E) ==
    LET n == Len(f)
        r == AggRate(phi, M, f, E)
        ebar == QSumSet(LAMBDA h : QMul(f[h], E[h]), 1..n)
        sumf == QSumSeq(f)
    IN /\ (sumf = QOne) => QSumSeq(r) = QZ                                  \* zero net volume change
       /\ \A g \in 1..n : f[g] = QZ => r[g] = QZ                             \* dead grains stay dead
       /\ (M = QZ) => \A g \in 1..n : r[g] = QZ                              \* no mobility, no change
       /\ \A a \in {Q(2), Q(5), <<1, 3>>} :                                  \* linear in M and in phi
             /\ AggRate(phi, QMul(a, M), f, E) = [g \in 1..n |-> QMul(a, r[g])]
             /\ AggRate(QMul(a, phi), M, f, E) = [g \in 1..n |-> QMul(a, r[g])]
       /\ \A g \in 1..n : (QSign(f[g]) > 0 /\ QSign(M) > 0 /\ QSign(phi) > 0) =>
             QSign(r[g]) = QSign(QSub(ebar, E[g]))                           \* grows iff below the mean

\* ---------------------------------------------------------------- lumping (replication) lemma
\* An aggregate in which lumped grain g (volume W[g], energy E[g]) is present as r[g] identical copies of volume
\* W[g] / r[g] has, copy for copy, the lumped rate divided by r[g]; the mean energy is that of the lumped aggregate.
\* Together with "the spin of a grain depends on its own orientation and on the flow only" (Kernels is a pointwise
\* map) this gives the expected rates of an aggregate of ANY size from the exact kernel of its distinct grains:
\* the size sweep of the harness (harness/sizesweep.py) applies it at every grain count up to its bound.
LumpOf(r) == LET n == Len(r)
                 RECURSIVE build(_)
                 build(g) == IF g > n THEN <<>> ELSE [i \in 1..r[g] |-> g] \o build(g + 1)
             IN build(1)
LumpLemma(phi, M, W, E, r) ==
    LET idx == LumpOf(r)
        fr == [i \in 1..Len(idx) |-> QDiv(W[idx[i]], Q(r[idx[i]]))]
        Er == [i \in 1..Len(idx) |-> E[idx[i]]]
        lumped == AggRate(phi, M, W, E)
        repl == AggRate(phi, M, fr, Er)
    IN /\ QSumSeq(fr) = QSumSeq(W)
       /\ \A i \in 1..Len(idx) : repl[i] = QDiv(lumped[idx[i]], Q(r[idx[i]]))
=============================================================================
