CONSTANTS
  D = 12
  MaxM = 6
  AllLayouts = FALSE
INIT LawInit
NEXT LawNext
INVARIANT PinNoOp
INVARIANT CumMonotone
INVARIANT DrawIsInputIndex
INVARIANT CountLaw
INVARIANT CellConstant
INVARIANT ZeroUnreachable
INVARIANT PairIsInputPair
INVARIANT SortedIsALayout
INVARIANT MutantsBreakLaw
CHECK_DEADLOCK FALSE
