INIT Init
NEXT Next
CONSTANT Tier = "quick"
CONSTANT Plant = "none"
INVARIANT OffPlaneZero
INVARIANT ShearExact
INVARIANT CellTraceFree
INVARIANT CornerExact
INVARIANT StrainSpectrum
INVARIANT Emit
CHECK_DEADLOCK FALSE
