--------------------------- MODULE ConfigHistory ---------------------------
(* C19, history clause: parse_config is a FUNCTION OF THE FILE.  The result of a call depends neither on the calls     *)
(* made before it nor on what the caller did with their results (the result is a plain nested dictionary that callers   *)
(* are free to modify: parameter sweeps assign into it).                                                                *)
(*                                                                                                                      *)
(* State machine: `known` maps every file parsed so far to the canonical digest of its result; the caller may          *)
(* Scribble over any earlier result (overwrite every entry, extend every list) at any time.  A Parse of a file seen     *)
(* before must return the digest recorded for it.  Unbounded design: Spec; the invariant FunctionOfFile says that the   *)
(* log never holds two different results for one file.  Trace validation (code -> spec): the harness records            *)
(*   {tid, ev: "Parse", file, dig}  /  {tid, ev: "Scribble", file}                                                      *)
(* for every worker (tid) and TLC replays the log; a Parse whose digest differs from `known` is REJECTed.               *)
EXTENDS Naturals, Sequences, FiniteSets, TLC, Json, IOUtils
CONSTANTS Files, Digests
VARIABLES known, scribbled, log
vars == <<known, scribbled, log>>
\* ---- design
Pure == [f \in Files |-> CHOOSE d \in Digests : TRUE]          \* some fixed function of the file
Init == known = <<>> /\ scribbled = {} /\ log = <<>>
Parse(f) == /\ known' = IF f \in DOMAIN known THEN known ELSE known @@ (f :> Pure[f])
            /\ log' = Append(log, [file |-> f, dig |-> Pure[f]])
            /\ UNCHANGED scribbled
Scribble(f) == f \in DOMAIN known /\ scribbled' = scribbled \cup {f} /\ UNCHANGED <<known, log>>
Next == \E f \in Files : Parse(f) \/ Scribble(f)
Spec == Init /\ [][Next]_vars
FunctionOfFile == \A i, j \in 1..Len(log) : log[i].file = log[j].file => log[i].dig = log[j].dig
Bound == Len(log) <= 4
=============================================================================
