------------------------------ MODULE Resample ------------------------------
(***************************************************************************)
(* Layer A (C15): volume-weighted resampling of a texture snapshot, stated *)
(* exactly over Rat.                                                       *)
(*                                                                         *)
(* What is specified                                                       *)
(*  1. The inverse-CDF sampling law.  A snapshot has M grains with volume  *)
(*     fractions f_k = v[k]/D (v[k] in 0..D, sum v = D).  The grains are   *)
(*     laid out in an order p (a permutation of 1..M; the implementation   *)
(*     uses an ascending sort, any tie-break), cumulative sums             *)
(*     c_i = (v[p[1]]+..+v[p[i]])/D are formed with the last one pinned to *)
(*     1, and a uniform variate u in (0,1) selects position                *)
(*     Draw(u) = #{i : c_i < u}   (0-based "left" search),                 *)
(*     i.e. input grain p[Draw(u)+1], returned together with ITS volume.   *)
(*  2. The shape contract: orientations of shape (N,M,3,3) and fractions   *)
(*     of shape (N,M) are accepted and give outputs (N,n,3,3) and (N,n),   *)
(*     n defaulting to M; every other shape pair is a ValueError.          *)
(*  3. The integer form of the 6-sigma binomial acceptance region used by  *)
(*     the trace specification (ResampleTrace), split so that nothing      *)
(*     exceeds 2^31.                                                       *)
(*                                                                         *)
(* What TLC checks (Resample.cfg: M <= 5, ascending layouts;               *)
(* Resample_thorough.cfg: M <= 5, all layouts; Resample_m6.cfg: M <= 6,    *)
(* ascending layouts; D = 12 throughout; one state per                     *)
(* (volume vector, layout permutation), exhaustively for all vectors with  *)
(* denominator D and M <= MaxM grains - zeros, duplicates, one dominant    *)
(* grain, a single grain all included - and, with AllLayouts = TRUE, ALL   *)
(* layout permutations, so the lemmas depend neither on the sort nor on    *)
(* its tie-break; with AllLayouts = FALSE every ascending sort, i.e. every *)
(* tie-break of the implementation's argsort):                             *)
(*   PinNoOp          the unpinned last cumulative sum is exactly 1        *)
(*   CumMonotone      cumulative sums are non-decreasing, in [0,1]         *)
(*   DrawIsInputIndex every draw on the grid is an index in 1..M           *)
(*   CountLaw         on the midpoint grid u_j = (j+1/2)/D, j in 0..D-1,   *)
(*                    #{j : Pick(u_j) = k} = v[k] = D f_k  for every k     *)
(*   CellConstant     Pick is the same at (j+1/4)/D, (j+1/2)/D, (j+3/4)/D: *)
(*                    the breakpoints are multiples of 1/D, so Pick is     *)
(*                    constant on each open cell and the measure of        *)
(*                    {u : Pick(u) = k} is exactly f_k                     *)
(*   ZeroUnreachable  a grain with v[k] = 0 is picked at no grid point     *)
(*   PairIsInputPair  gathering sorted orientations and sorted volumes     *)
(*                    with the same position gives an input pair           *)
(*   SortedIsALayout  at least one ascending layout exists and satisfies   *)
(*                    the above (the implementation's choice is covered)   *)
(*   MutantsBreakLaw  (non-vacuity) the uniform sampler and the            *)
(*                    off-by-one search violate CountLaw on some vector    *)
(* (ResampleShapes.cfg) the shape decision table: every combination of     *)
(* candidate orientation/fraction shapes (ranks 0..5, mismatched N or M,   *)
(* trailing dims in 1..4 x 1..4) is classified, sanity lemmas are checked  *)
(* and each entry is emitted as JSON ("SHAPE") for the replayer.           *)
(* (same cfg) SplitBoundExact: the overflow-free split form of             *)
(* diff^2 <= 36 T agrees with the direct form on 0..200 x 0..1200;         *)
(* BoundSpots: spot values of the region incl. the largest operands.       *)
(***************************************************************************)
EXTENDS Rat, Json
CONSTANTS D,      \* common denominator of the volume vectors
          MaxM,   \* largest grain count
          AllLayouts \* TRUE: every permutation is a layout; FALSE: ascending sorts (all tie-breaks)
VARIABLE c        \* the case under evaluation

--------------------------------------------------------------------------------
\* 1. inverse-CDF law
RECURSIVE Comp(_, _)
\* all sequences of m naturals summing to s
Comp(m, s) == IF m = 1 THEN {<<s>>}
              ELSE UNION {{<<a>> \o t : t \in Comp(m - 1, s - a)} : a \in 0..s}
VolVectors == UNION {Comp(m, D) : m \in 1..MaxM}

PartialSum(v, p, i) == FoldSet(LAMBDA k, acc : v[p[k]] + acc, 0, 1..i)
\* cumulative fractions along layout p, last one pinned to 1 as the implementation does
Cum(v, p) == TLCEval([i \in 1..Len(v) |-> IF i = Len(v) THEN QOne ELSE QNorm(PartialSum(v, p, i), D)])
Unpinned(v, p) == QNorm(PartialSum(v, p, Len(v)), D)
\* left search: number of cumulative sums strictly below u (a 0-based position)
Draw(cum, u) == Cardinality({i \in DOMAIN cum : QLt(cum[i], u)})
\* the input grain selected by u
Pick(v, p, cum, u) == p[Draw(cum, u) + 1]
Mid(j) == QNorm(2 * j + 1, 2 * D)
Quarter(j, q) == QNorm(4 * j + q, 4 * D)       \* q = 1 or 3
Cells == 0..(D - 1)
IsAscending(v, p) == \A i \in 1..(Len(v) - 1) : v[p[i]] <= v[p[i + 1]]

\* mutants, used only to show that CountLaw is not vacuous
PickUniform(v, j) == ((j * Len(v)) \div D) + 1
DrawRightMinus1(cum, u) == Cardinality({i \in DOMAIN cum : QLe(cum[i], u)}) - 1

\* --- driver: one initial state per volume vector, one successor per layout.  The successor
\* carries the cumulative sums and the 0-based draws at the three grid points of every cell
\* (computed once; the lemmas below read them).
Layouts(v) == IF AllLayouts THEN Permutations(1..Len(v))
              ELSE {p \in Permutations(1..Len(v)) : IsAscending(v, p)}
LawInit == c \in {[kind |-> "vec", v |-> v] : v \in VolVectors}
LawNext == /\ c.kind = "vec"
           /\ \E p \in Layouts(c.v) :
                LET cum == Cum(c.v, p) IN
                c' = [kind |-> "lay", v |-> c.v, p |-> p, cum |-> cum,
                      dr |-> [j \in Cells |-> <<Draw(cum, Quarter(j, 1)), Draw(cum, Mid(j)), Draw(cum, Quarter(j, 3))>>]]

IsLay == c.kind = "lay"
M_ == Len(c.v)
PickAt(j, q) == c.p[c.dr[j][q] + 1]      \* q = 1, 2, 3: quarter, midpoint, three-quarter point

PinNoOp == IsLay => Unpinned(c.v, c.p) = QOne
CumMonotone == IsLay =>
                 /\ \A i \in 1..M_ : QLe(QZ, c.cum[i]) /\ QLe(c.cum[i], QOne) /\ QIsRat(c.cum[i])
                 /\ \A i \in 1..(M_ - 1) : QLe(c.cum[i], c.cum[i + 1])
DrawIsInputIndex == IsLay =>
                 \A j \in Cells : \A q \in 1..3 : c.dr[j][q] \in 0..(M_ - 1) /\ PickAt(j, q) \in 1..M_
CountLaw == IsLay =>
                 \A k \in 1..M_ : Cardinality({j \in Cells : PickAt(j, 2) = k}) = c.v[k]
CellConstant == IsLay =>
                 \A j \in Cells : PickAt(j, 1) = PickAt(j, 2) /\ PickAt(j, 3) = PickAt(j, 2)
ZeroUnreachable == IsLay =>
                 \A k \in 1..M_ : c.v[k] = 0 => \A j \in Cells : \A q \in 1..3 : PickAt(j, q) # k
\* orientations carry the label of their grain; the implementation gathers both sorted arrays
\* with the same position
PairIsInputPair == IsLay => LET oSorted == [i \in 1..M_ |-> c.p[i]]
                                fSorted == [i \in 1..M_ |-> c.v[c.p[i]]] IN
                 \A j \in Cells : LET pos == c.dr[j][2] + 1 IN
                     <<oSorted[pos], fSorted[pos]>> \in {<<k, c.v[k]>> : k \in 1..M_}
SortedIsALayout == (c.kind = "vec") => \E p \in Permutations(1..Len(c.v)) : IsAscending(c.v, p)
\* non-vacuity: on the one-dominant vector <<1, D-1>> the uniform sampler and the off-by-one
\* search do not satisfy the count law
MutantsBreakLaw == (c.kind = "vec") =>
    LET v == <<1, D - 1>>
        p == <<1, 2>>
        cum == Cum(v, p) IN
    /\ Cardinality({j \in Cells : PickUniform(v, j) = 1}) # v[1]
    /\ \E j \in Cells : DrawRightMinus1(cum, Mid(j)) + 1 \notin 1..2

--------------------------------------------------------------------------------
\* 2. shape contract
ShapeOk(os, fs) == IF Len(os) # 4 \/ Len(fs) # 2 THEN FALSE
                   ELSE os[1] = fs[1] /\ os[2] = fs[2] /\ os[3] = 3 /\ os[4] = 3
ShapeOutcome(os, fs) == IF ShapeOk(os, fs) THEN "None" ELSE "ValueError"
\* first violated clause, for reporting only
ShapeFault(os, fs) == IF Len(os) # 4 THEN "orientations-rank"
                      ELSE IF Len(fs) # 2 THEN "fractions-rank"
                      ELSE IF os[1] # fs[1] THEN "N-mismatch"
                      ELSE IF os[2] # fs[2] THEN "M-mismatch"
                      ELSE IF os[3] # 3 \/ os[4] # 3 THEN "trailing-not-3x3"
                      ELSE "none"
\* nreq = 0 stands for "n_samples not given"
EffN(os, nreq) == IF nreq = 0 THEN os[2] ELSE nreq
OutOShape(os, nreq) == <<os[1], EffN(os, nreq), 3, 3>>
OutFShape(os, nreq) == <<os[1], EffN(os, nreq)>>

Bases == {<<1, 2>>, <<3, 5>>, <<2, 2>>}
OCands(N, M) == {<<N, M, a, b>> : a \in 1..4, b \in 1..4}
                \cup {<<N, M, 3>>, <<N, M>>, <<M, 3, 3>>, <<N * M, 3, 3>>, <<N, M, 3, 3, 1>>, <<1, N, M, 3, 3>>,
                      <<N + 1, M, 3, 3>>, <<N, M + 1, 3, 3>>, <<M, N, 3, 3>>, <<3, 3>>}
FCands(N, M) == {<<N, M>>, <<N>>, <<M>>, <<N * M>>, <<N, M, 1>>, <<1, N, M>>, <<>>,
                 <<N + 1, M>>, <<N, M + 1>>, <<M, N>>, <<N, M, 3, 3>>}
ShapeInit == c \in UNION {{[kind |-> "shape", os |-> os, fs |-> fs, nreq |-> nreq,
                            exc |-> ShapeOutcome(os, fs), fault |-> ShapeFault(os, fs),
                            osh |-> IF ShapeOk(os, fs) THEN OutOShape(os, nreq) ELSE <<>>,
                            vsh |-> IF ShapeOk(os, fs) THEN OutFShape(os, nreq) ELSE <<>>] :
                              os \in OCands(b[1], b[2]), fs \in FCands(b[1], b[2]), nreq \in {0, 7}} : b \in Bases}
\* sanity lemmas of the table
IsShape == c.kind = "shape"
FaultIffRejected == IsShape => ((c.fault = "none") <=> (c.exc = "None"))
AcceptedIsCanonical == (IsShape /\ c.exc = "None") => /\ c.os = <<c.fs[1], c.fs[2], 3, 3>>
                                           /\ c.osh[1] = c.fs[1] /\ c.vsh[1] = c.fs[1]
                                           /\ c.osh[2] = c.vsh[2]
                                           /\ c.osh[2] = (IF c.nreq = 0 THEN c.fs[2] ELSE c.nreq)
                                           /\ Len(c.osh) = 4 /\ Len(c.vsh) = 2
NonSquareTrailingRejected == (IsShape /\ Len(c.os) = 4) => ((c.os[3] # 3 \/ c.os[4] # 3) => c.exc = "ValueError")
EmitShape == IsShape => PrintT(<<"SHAPE", ToJson(c)>>)

--------------------------------------------------------------------------------
\* 3. 6-sigma binomial acceptance region in 32-bit integers
\*    (count*D - n*num)^2 <= 36*n*num*(D-num) + 36*D^2
\*    <=>  diff^2 <= 36*T,  diff = |count*D - n*num|,  T = n*num*(D-num) + D^2.
\*    With diff = 6q + r:  diff^2 <= 36 T  <=>  q^2 + ceil((12qr + r^2)/36) <= T.
\*    Domain (ArithDomain): n <= 10^6, D <= 90, 0 <= num <= D, 0 <= count <= n, so that
\*    count*D, n*num <= 9*10^7 and T <= 10^6*45*45 + 8100 < 2^31; q > 46340 means
\*    diff^2 >= 46341^2*36 > 36*2^31 > 36 T, hence outside.
MaxN == 1000000
MaxD == 90
ArithDomain(count, n, num, DD) == /\ n \in 1..MaxN /\ DD \in 1..MaxD
                                  /\ num \in 0..DD /\ count \in 0..n
SplitLe(diff, T) == LET q == diff \div 6
                        r == diff % 6 IN
                    IF q > 46340 THEN FALSE
                    ELSE q * q + ((12 * q * r + r * r + 35) \div 36) <= T
Within6Sigma(count, n, num, DD) ==
    LET a == count * DD
        b == n * num
        diff == IF a < b THEN b - a ELSE a - b
        T == b * (DD - num) + DD * DD IN
    SplitLe(diff, T)

BoundInit == c \in {[kind |-> "bound", diff |-> d] : d \in 0..200}
SplitBoundExact == (c.kind = "bound") => \A T \in 0..1200 : SplitLe(c.diff, T) <=> (c.diff * c.diff <= 36 * T)
\* one driver for both tables (ResampleShapes.cfg)
TableInit == ShapeInit \/ BoundInit
TableNext == UNCHANGED c
\* spot values of the region: exact expectation is inside, a uniform sampler on the dominant
\* vector and a shifted count are outside, the largest admissible operands do not overflow
BoundSpots == /\ Within6Sigma(500000, 1000000, 45, 90)
              /\ Within6Sigma(0, 1000000, 0, 90) /\ ~Within6Sigma(7, 1000000, 0, 90)
              /\ Within6Sigma(1000000, 1000000, 90, 90)
              /\ ~Within6Sigma(0, 1000000, 90, 90) /\ ~Within6Sigma(1000000, 1000000, 0, 90)
              /\ ~Within6Sigma(5000, 10000, 1, 12) /\ Within6Sigma(850, 10000, 1, 12)
              /\ Within6Sigma(1, 1, 1, 12) /\ Within6Sigma(0, 1, 1, 12)
              /\ ~Within6Sigma(503100, 1000000, 45, 90) /\ Within6Sigma(502900, 1000000, 45, 90)
=============================================================================
