---- MODULE C08Equiv ----
(* C08, own-fraction clause: a mineral in a multiphase aggregate evolves as a single-phase    *)
(* mineral whose boundary mobility is multiplied by ITS OWN phase fraction.  The model        *)
(* enumerates pairs (multiphase parameters, single-phase parameters) with equal effective     *)
(* mobility M * phi_own and everything else equal; the harness runs both and compares.        *)
EXTENDS DispatchDef, TLC, Json, FiniteSets
VARIABLE pair
Ms == {0, 10, 50, 100, 200}
PhiOls == {3, 5, 7}
Asms == {<<0, 1>>, <<1, 0>>}
EffMob10(p, par) == par.M * Phi(p, par)        \* effective mobility in tenths
Multi == {[M |-> m, chi |-> c, asm |-> a, phiOl |-> f, x |-> <<5, 0>>] : m \in Ms, c \in {0, 3}, a \in Asms, f \in PhiOls}
\* regime programme of the pair (the SAME for both partners): <<>> = the mineral's own regime, no callback; <<r1, r2>> = a
\* regime callback that returns r1 during the first 40 % of every update interval and r2 afterwards - the regime in
\* force when an update starts is not the one in force later in the same update (passive -> migrating, migrating ->
\* passive, one dislocation-type regime -> the other)
RegProgs == {<<>>, <<1, 4>>, <<7, 4>>, <<0, 6>>, <<4, 1>>, <<6, 4>>, <<4, 4>>}
\* the single-phase partner: mobility M*phi/10 must be an integer here
PairInit == pair \in {[phase |-> p, multi |-> mp, rp |-> rp,
                       single |-> [M |-> EffMob10(p, mp) \div 10, chi |-> mp.chi, asm |-> <<p>>, phiOl |-> 10, x |-> <<5, 0>>]] :
                        p \in {0, 1}, rp \in RegProgs, mp \in {x \in Multi : EffMob10(0, x) % 10 = 0 /\ EffMob10(1, x) % 10 = 0}}
PairNext == UNCHANGED pair
SameEffective == EffMob10(pair.phase, pair.multi) = EffMob10(pair.phase, pair.single)
OtherFractionIrrelevant == \A other \in PhiOls :
    LET alt == [pair.multi EXCEPT !.phiOl = other] IN
      (Phi(pair.phase, alt) = Phi(pair.phase, pair.multi)) => EffMob10(pair.phase, alt) = EffMob10(pair.phase, pair.multi)
Emit == PrintT(<<"PAIR", ToJson(pair)>>)
====
