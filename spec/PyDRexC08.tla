---- MODULE PyDRexC08 ----
(* C08: multiphase independence.  Three pre-built minerals: a and b are twins (olivine A,     *)
(* same seed, same grain count), c is enstatite.  Every interleaving of single updates and     *)
(* bulk updates (update_all over every ordered subset), under every assemblage order and       *)
(* fraction pair, is enumerated (the call log is part of the state: no VIEW).                  *)
(* Invariants: Twins, NonInterference (refinement to the solo machine), EffectiveMobility.     *)
EXTENDS PyDRex
C08Pars == {[M |-> 125, chi |-> 3, asm |-> a, phiOl |-> p, x |-> <<5, 0>>] : a \in {<<0, 1>>, <<1, 0>>}, p \in {7, 3}}
C08OnePar == {[M |-> 125, chi |-> 3, asm |-> <<0, 1>>, phiOl |-> 7, x |-> <<5, 0>>]}
cA == [phase |-> 0, fabric |-> 0, regime |-> 4, n |-> 8]
cC == [phase |-> 1, fabric |-> 5, regime |-> 4, n |-> 8]
Mk(m, c, s) == [a |-> "Create", m |-> m, c |-> c, seed |-> s, tex |-> "random"]
C08Init == /\ cfg = [m \in Minerals |-> IF m = "c" THEN cC ELSE cA]
           /\ hist = [m \in Minerals |-> << [o |-> InitO(1, 8, "random"), f |-> InitF(8, "random")] >>]
           /\ nUpd = [m \in Minerals |-> 0] /\ Fm = [m \in Minerals |-> <<>>]
           /\ disk = [f \in Files |-> <<>>] /\ err = "None" /\ ops = 0
           /\ log = << Mk("a", cA, 1), Mk("b", cA, 1), Mk("c", cC, 1) >>
Seqs == {<<x, y>> : x \in Minerals, y \in Minerals} \cup {<<x, y, z>> : x \in Minerals, y \in Minerals, z \in Minerals}
OrderedSubsets == {s \in Seqs : \A i, j \in 1..Len(s) : i # j => s[i] # s[j]}
C08Next == \/ \E m \in Minerals, fl \in Flows, par \in Pars :
                 UpdateOk(m, fl, par, NoCb, NextOP(Last(hist[m]), cfg[m], cfg[m].regime, fl, par, Fm[m]),
                                            NextFP(Last(hist[m]), cfg[m], cfg[m].regime, fl, par, Fm[m]))
           \/ \E ms \in OrderedSubsets, fl \in Flows, par \in Pars : UpdateAllOk(ms, fl, par, ModelNews(fl, par))
C08Spec == C08Init /\ [][C08Next]_vars
\* the same interleavings with failing calls in between: a callable of the client raises during a single or a bulk
\* update (UpdateFaulted / UpdateAllFaulted).  A failed call is no input of any mineral (Touches), so
\* NonInterference and Twins say that every mineral still evolves as if the failed calls had never been made -
\* whatever the lengths of the other minerals' histories at that moment.
\* (one parameter record and three fault points for the failing calls: tlc -simulate draws successors uniformly, and
\*  the failing calls would otherwise crowd out the updates that make the histories differ in length)
OnePar == CHOOSE p \in Pars : TRUE
C08FaultNext == \/ C08Next
                \/ \E m \in Minerals, fc \in {"first", "vgrad_mid", "regime_mid"} : UpdateFaulted(m, "ss_xz", OnePar, fc)
                \/ \E ms \in OrderedSubsets, fc \in {"first", "vgrad_late", "pos_mid"} : UpdateAllFaulted(ms, "gen3d", OnePar, fc)
C08FaultSpec == C08Init /\ [][C08FaultNext]_vars
\* ... and with duplicated minerals: handle "d" starts empty and becomes a deep copy / an unpickled copy of a live
\* mineral at some point of the interleaving; from then on it is one more mineral of the aggregate.  The solo
\* machine of a clone starts from the history it was cloned with (CloneBase), so NonInterference keeps its meaning.
C08LifeInit == /\ cfg = [m \in Minerals |-> IF m = "d" THEN NULL ELSE IF m = "c" THEN cC ELSE cA]
               /\ hist = [m \in Minerals |-> IF m = "d" THEN <<>> ELSE << [o |-> InitO(1, 8, "random"), f |-> InitF(8, "random")] >>]
               /\ nUpd = [m \in Minerals |-> 0] /\ Fm = [m \in Minerals |-> <<>>]
               /\ disk = [f \in Files |-> <<>>] /\ err = "None" /\ ops = 0
               /\ log = << Mk("a", cA, 1), Mk("b", cA, 1), Mk("c", cC, 1) >>
Live == {m \in Minerals : cfg[m] # NULL}
LiveSubsets == {s \in OrderedSubsets : \A i \in 1..Len(s) : s[i] \in Live}
C08LifeNext == \/ \E m \in Live, fl \in Flows, par \in Pars :
                     UpdateOk(m, fl, par, NoCb, NextOP(Last(hist[m]), cfg[m], cfg[m].regime, fl, par, Fm[m]),
                                                NextFP(Last(hist[m]), cfg[m], cfg[m].regime, fl, par, Fm[m]))
               \/ \E ms \in LiveSubsets, fl \in Flows, par \in Pars : UpdateAllOk(ms, fl, par, ModelNews(fl, par))
               \/ \E m \in Live, how \in CloneHows : Clone(m, "d", how)
               \/ \E m \in Live, fl \in Flows, par \in Pars, fc \in FaultCodes : UpdateFaulted(m, fl, par, fc)
C08LifeSpec == C08LifeInit /\ [][C08LifeNext]_vars
\* per-mineral input sequence, reconstructed from the call log
Touches(e, m) == IF e.a = "UpdateOk" THEN e.m = m
                 ELSE IF e.a = "UpdateAllOk" THEN InSeq(m, e.ms) ELSE FALSE
Inputs(m) == SelectSeq(log, LAMBDA e : Touches(e, m))
RECURSIVE Solo(_, _, _, _)
\* the solo machine: fold the mineral's own inputs over its own initial snapshot
Solo(m, h, ins, path) == IF ins = <<>> THEN h
                   ELSE LET e == Head(ins) IN
                        Solo(m, Append(h, [o |-> NextOP(Last(h), cfg[m], cfg[m].regime, e.fl, e.par, path),
                                           f |-> NextFP(Last(h), cfg[m], cfg[m].regime, e.fl, e.par, path)]), Tail(ins), Append(path, e.fl))
NonInterference == \A m \in Minerals : hist[m] = Solo(m, <<hist[m][1]>>, Inputs(m), <<>>)
OwnKey(m, e) == StepKey(cfg[m], cfg[m].regime, e.fl, e.par)
SameDriving(m1, m2) == /\ Len(Inputs(m1)) = Len(Inputs(m2))
                       /\ \A k \in 1..Len(Inputs(m1)) : OwnKey(m1, Inputs(m1)[k]) = OwnKey(m2, Inputs(m2)[k])
Twins == \A m1, m2 \in Minerals :
           (cfg[m1] = cfg[m2] /\ hist[m1][1] = hist[m2][1] /\ SameDriving(m1, m2)) => hist[m1] = hist[m2]
\* only the mineral's OWN phase fraction enters its step key
OwnFractionOnly == \A m \in Minerals : \A k \in 1..Len(Inputs(m)) :
    LET e == Inputs(m)[k] IN
      OwnKey(m, e)[8] = (IF cfg[m].phase = 0 THEN e.par.phiOl ELSE 10 - e.par.phiOl)
\* the solo machine of the clone: the inputs of its original up to the Clone call, its own afterwards
CloneIdx == IF \E k \in 1..Len(log) : log[k].a = "Clone" THEN CHOOSE k \in 1..Len(log) : log[k].a = "Clone" ELSE 0
LifeInputs(m) == IF m # "d" THEN Inputs(m)
                 ELSE IF CloneIdx = 0 THEN <<>>
                 ELSE SelectSeq(SubSeq(log, 1, CloneIdx), LAMBDA e : Touches(e, log[CloneIdx].m))
                      \o SelectSeq(SubSeq(log, CloneIdx + 1, Len(log)), LAMBDA e : Touches(e, "d"))
LifeNonInterference == \A m \in Minerals : cfg[m] # NULL => hist[m] = Solo(m, <<hist[m][1]>>, LifeInputs(m), <<>>)
LifeTwins == \A m \in Minerals : (cfg[m] # NULL /\ cfg["d"] # NULL /\ cfg[m] = cfg["d"] /\ LifeInputs(m) = LifeInputs("d")) => hist[m] = hist["d"]
EmitDone == (\A m \in Minerals : nUpd[m] = MaxUpd) => (LET tr == Trace IN PrintT(<<"BEH", ToJson([i \in 1..Len(tr) |-> Project(tr[i])])>>))
EmitTag == (\A m \in Minerals : nUpd[m] = MaxUpd) => PrintT(<<"TAG", ops>>)
====
