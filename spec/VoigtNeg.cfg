\* C10 negative control: a functional that is NOT rotation invariant must be refuted on basis x rotations
INIT Init
NEXT Next
CONSTANTS
  Tier = "quick"
  Mode = "negative"
INVARIANT NegFunctionalInvariant
CHECK_DEADLOCK FALSE
