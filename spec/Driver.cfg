SPECIFICATION DSpec
CONSTANTS
  MineralSeq <- MS3
  StepChoices = {1, 2, 3, 5, 8}
  MayReject = TRUE
  MaxRuns = 3
  MayTraceFail = TRUE
INVARIANT SnapshotPerStep
INVARIANT CompleteBeforeUse
INVARIANT DiagPerSnapshot
INVARIANT PartialOnFailure
INVARIANT StepsBounded
PROPERTY FailedStays
CHECK_DEADLOCK FALSE
