------------------------------- MODULE Params -------------------------------
(***************************************************************************)
(* C19, first half: the parameter record and its published presets.        *)
(*                                                                         *)
(* WHAT IS SPECIFIED.  A parameter record type is a class that *declares*  *)
(* fields with values.  The root class (DefaultParams) declares every      *)
(* field; a preset is a class derived (directly or through other presets)  *)
(* from the root whose body declares new values for some of the fields.    *)
(* What a preset "means" is                                                *)
(*                                                                         *)
(*     Resolve(c, f) = the value c declares for f, if it declares one,     *)
(*                     otherwise Resolve(parent(c), f)                     *)
(*                                                                         *)
(* and an instance of c must yield Resolve(c, f) for every field f, both   *)
(* by attribute access and through its dictionary form.  The root record   *)
(* is immutable (setting or deleting any attribute is refused with         *)
(* FrozenInstanceError and leaves every field as it was), hashable, and    *)
(* round-trips through its dictionary form: FromDict(AsDict(r)) = r.       *)
(*                                                                         *)
(* The *declarations* are not written here: they are what the source says. *)
(* The harness reads the class bodies of pydrex.core.DefaultParams and of  *)
(* every class of pydrex.mock with the `ast` module - plain assignments    *)
(* (`x = v`) AND annotated ones (`x: T = v`), i.e. what each class         *)
(* declares, not what Python's dataclass machinery makes of it (a preset   *)
(* published as an instance, `X = DefaultParams(f = v)`, declares its      *)
(* keyword arguments) - and passes the table as JSON in the file named by  *)
(* the environment variable C19_DECL_FILE (values are opaque source        *)
(* texts, written to a scratch directory).  Without the variable           *)
(* the table pinned below (the tree this check was written against) is     *)
(* used, so the module can be checked standalone.                          *)
(*                                                                         *)
(* WHAT TLC DOES.  One initial state per case:                             *)
(*   value     (class, field)      -> expected value text, declaring class *)
(*   frozen    (root, field, op)   -> refused, record unchanged            *)
(*   hash      (root)              -> an integer, equal for equal records  *)
(*   roundtrip (root)              -> FromDict(AsDict(r)) = r, field-wise  *)
(*   dictseq   (every class)       -> one instance: as_dict; edit that     *)
(*                                    copy; as_dict again still yields the *)
(*                                    declared values; attributes too;     *)
(*                                    FromDict of it equals the record     *)
(* and emits each with PrintT(<<"CASE", json>>) for the replayer.          *)
(* Lemmas checked as invariants on every case:                             *)
(*   ChainReachesRoot  every class reaches the root through its parents    *)
(*   OverrideWins      a class that declares f resolves f to its own value *)
(*   InheritOtherwise  a class that does not, resolves f as its parent     *)
(*   RootIsTotal       the root resolves every field to its own value      *)
(*   RoundTripLemma    FromDict(AsDict(Rec(c))) = Rec(c) for the case's c  *)
(*   DictDomain        the dictionary form has exactly the record's fields *)
(*   FrozenLemma       a refused mutation leaves the record unchanged      *)
(*   NoAliasLemma      editing a handed-out dictionary form changes neither*)
(*                     the record nor any later dictionary form            *)
(***************************************************************************)
EXTENDS Integers, Sequences, FiniteSets, TLC, Json, IOUtils

PinnedDecl ==
  [root |-> "DefaultParams",
   order |-> <<"phase_assemblage", "phase_fractions", "stress_exponent", "deformation_exponent",
               "gbm_mobility", "gbs_threshold", "nucleation_efficiency", "number_of_grains",
               "initial_olivine_fabric", "disl_Peierls_stress", "disl_prefactors", "diff_prefactors",
               "disl_lowtemp_switch", "disl_activation_energy", "disl_activation_volume",
               "diff_activation_energies", "diff_activation_volumes", "disl_coefficients">>,
   classes |-> <<"DefaultParams", "ParamsKaminski2001_Fig5Solid">>,
   parent |-> [DefaultParams |-> "", ParamsKaminski2001_Fig5Solid |-> "DefaultParams"],
   declared |->
     [DefaultParams |->
        [phase_assemblage |-> "(MineralPhase.olivine,)", phase_fractions |-> "(1.0,)",
         stress_exponent |-> "1.5", deformation_exponent |-> "3.5", gbm_mobility |-> "125",
         gbs_threshold |-> "0.3", nucleation_efficiency |-> "5.0", number_of_grains |-> "3500",
         initial_olivine_fabric |-> "MineralFabric.olivine_A", disl_Peierls_stress |-> "2.0",
         disl_prefactors |-> "(1e-16, 1e-17)", diff_prefactors |-> "(1e-10, 1e-10)",
         disl_lowtemp_switch |-> "0.7", disl_activation_energy |-> "460.0",
         disl_activation_volume |-> "12.0", diff_activation_energies |-> "(430.0, 330)",
         diff_activation_volumes |-> "(4.0, 4.0)",
         disl_coefficients |-> "(440000000.0, -52600.0, 0.0211, 0.000174, -41.8, 0.0421, -1.14e-05)"],
      ParamsKaminski2001_Fig5Solid |->
        [phase_assemblage |-> "(MineralPhase.olivine,)", phase_fractions |-> "(1,)",
         initial_olivine_fabric |-> "MineralFabric.olivine_A", stress_exponent |-> "1.5",
         deformation_exponent |-> "3.5", gbm_mobility |-> "0", gbs_threshold |-> "0",
         nucleation_efficiency |-> "5", number_of_grains |-> "3375"]]]

Decl == IF "C19_DECL_FILE" \in DOMAIN IOEnv THEN JsonDeserialize(IOEnv.C19_DECL_FILE) ELSE PinnedDecl

Root == Decl.root
Classes == {Decl.classes[i] : i \in DOMAIN Decl.classes}
Presets == Classes \ {Root}
Order == Decl.order                                   \* fields in declaration order
Fields == {Order[i] : i \in DOMAIN Order}
Parent(c) == Decl.parent[c]
Declares(c, f) == f \in DOMAIN Decl.declared[c]

ASSUME Root \in Classes
ASSUME Fields = DOMAIN Decl.declared[Root]            \* the root declares every field
ASSUME \A c \in Presets : Parent(c) \in Classes

\* ------------------------------------------------------------------ meaning
RECURSIVE Depth(_)
Depth(c) == IF c = Root THEN 0 ELSE 1 + Depth(Parent(c))

RECURSIVE Origin(_, _)
Origin(c, f) == IF Declares(c, f) THEN c ELSE Origin(Parent(c), f)   \* class whose declaration counts
Resolve(c, f) == Decl.declared[Origin(c, f)][f]

\* a record is the positional tuple of a dataclass, its dictionary form a function on names
Rec(c) == [i \in DOMAIN Order |-> Resolve(c, Order[i])]
Index(f) == CHOOSE i \in DOMAIN Order : Order[i] = f
AsDict(r) == [f \in Fields |-> r[Index(f)]]
FromDict(d) == [i \in DOMAIN Order |-> d[Order[i]]]

\* mutation of a frozen record: refused, nothing changes
Mutate(r, f, op) == [outcome |-> "FrozenInstanceError", after |-> r]

\* ------------------------------------------------------------------ cases
VARIABLE case

ValueCases == {[kind |-> "value", cls |-> c, field |-> f,
                expected |-> Resolve(c, f), origin |-> Origin(c, f),
                own |-> Declares(c, f),
                differs |-> Resolve(c, f) # Resolve(Root, f)] : c \in Classes, f \in Fields}
FrozenCases == {[kind |-> "frozen", cls |-> Root, field |-> f, op |-> op,
                 outcome |-> Mutate(Rec(Root), f, op).outcome,
                 expected |-> Mutate(Rec(Root), f, op).after[Index(f)]] :
                   f \in Fields, op \in {"setattr", "delattr"}}
HashCases == {[kind |-> "hash", cls |-> Root, outcome |-> "int", equal_records_equal_hash |-> TRUE]}
RoundTripCases == {[kind |-> "roundtrip", cls |-> Root,
                    dict |-> AsDict(Rec(Root)),
                    expected |-> [f \in Fields |-> FromDict(AsDict(Rec(Root)))[Index(f)]],
                    equal |-> FromDict(AsDict(Rec(Root))) = Rec(Root)]}

\* The dictionary form is a COPY: a run of operations on one record instance, with the dictionary
\* forms it handed out kept in a heap.  Editing a copy changes that copy only.
Edited == "<edited>"
Step(st, op) ==
  CASE op = "as_dict" -> [st EXCEPT !.dicts = Append(@, AsDict(st.rec))]
    [] op = "edit_first_copy" -> [st EXCEPT !.dicts[1] = [f \in Fields |-> Edited]]
    [] op = "from_dict_of_last" -> [st EXCEPT !.rebuilt = FromDict(st.dicts[Len(st.dicts)])]
RECURSIVE RunOps(_, _)
RunOps(st, ops) == IF ops = <<>> THEN st ELSE RunOps(Step(st, Head(ops)), Tail(ops))
DictOps == <<"as_dict", "edit_first_copy", "as_dict", "from_dict_of_last">>
DictRun(c) == RunOps([rec |-> Rec(c), dicts |-> <<>>, rebuilt |-> <<>>], DictOps)
DictSeqCases == {[kind |-> "dictseq", cls |-> c, ops |-> DictOps,
                  second |-> DictRun(c).dicts[2],                         \* what the 2nd as_dict() yields
                  attributes |-> [f \in Fields |-> DictRun(c).rec[Index(f)]], \* attribute access afterwards
                  origin |-> [f \in Fields |-> Origin(c, f)],
                  rebuilt_equal |-> DictRun(c).rebuilt = Rec(c)] : c \in Classes}

PInit == \/ case \in ValueCases
         \/ case \in DictSeqCases
         \/ case \in FrozenCases
         \/ case \in HashCases
         \/ case \in RoundTripCases
PNext == UNCHANGED case
PSpec == PInit /\ [][PNext]_case

\* ------------------------------------------------------------------ lemmas
ChainReachesRoot == Depth(case.cls) \in 0..Cardinality(Classes)
OverrideWins == (case.kind = "value" /\ Declares(case.cls, case.field))
                  => case.expected = Decl.declared[case.cls][case.field]
InheritOtherwise == (case.kind = "value" /\ ~Declares(case.cls, case.field) /\ case.cls # Root)
                      => case.expected = Resolve(Parent(case.cls), case.field)
RootIsTotal == (case.kind = "value" /\ case.cls = Root) => (case.own /\ ~case.differs)
RoundTripLemma == FromDict(AsDict(Rec(case.cls))) = Rec(case.cls)
DictDomain == DOMAIN AsDict(Rec(case.cls)) = Fields
NoAliasLemma == case.kind = "dictseq"
                  => /\ case.second = AsDict(Rec(case.cls))            \* still the declared values
                     /\ DictRun(case.cls).dicts[1] # DictRun(case.cls).dicts[2] \* the edit stayed in the copy
                     /\ \A f \in Fields : case.attributes[f] = Resolve(case.cls, f)
                     /\ case.rebuilt_equal                              \* FromDict(AsDict(p)) = p afterwards
FrozenLemma == case.kind = "frozen"
                 => /\ case.outcome = "FrozenInstanceError"
                    /\ case.expected = Resolve(Root, case.field)

Emit == PrintT(<<"CASE", ToJson(case)>>)
=============================================================================
