----------------------------- MODULE TensorsIdx -----------------------------
(***************************************************************************)
(* C11 driver 1: the index maps, exhaustively.  One state per tensor index   *)
(* tuple (p,q,r,s) (81) and per matrix index pair (i,j) (36).              *)
(* TLC proves for every tuple / pair, and for all 21 basis matrices:       *)
(*   VoigtMapLemma   the table equals the closed forms 9-p-q (Mat3) and    *)
(*                   "7-p-q" zero-based (anchor), is symmetric, and        *)
(*                   VoigtPair is a right inverse;                         *)
(*   SymmetryLemma   C4(B) has both minor and the major symmetry at the    *)
(*                   tuple;                                                *)
(*   CountLemma      |Pre(i,j)| = Mult(i) Mult(j) (1, 2 or 4 tuples);      *)
(*   AllRepresentativesAgree / InverseLemma  every tuple of Pre(i,j)       *)
(*                   carries B[i][j]; Mat6(C4(B)) = B at (i,j);            *)
(*   WeightLemma     the square of the documented 21-vector weight equals  *)
(*                   the number of tensor components that share the entry  *)
(*                   (the reason the vector map is an isometry), and the   *)
(*                   inverse weights are inverse;                          *)
(* and emits each tuple with its expected Voigt pair, each pair with its   *)
(* preimage, vector position and weight.                                   *)
(***************************************************************************)
EXTENDS Tensors, Json
VARIABLE c
\* seeds in Init, cases as their one-shot successors (TLC evaluates the invariants of initial
\* states on one thread and those of successor states on all workers)
Init == c \in {[kind |-> "seed", g |-> g] : g \in I6}
Next == /\ c.kind = "seed"
        /\ \/ c' \in {[kind |-> "t4", x |-> x] : x \in {y \in I4 : Voigt(y[1], y[2]) = c.g}}
           \/ c' \in {[kind |-> "m6", ij |-> ij] : ij \in {y \in I66 : y[1] = c.g}}

VoigtMapLemma == c.kind = "t4" =>
    LET p == c.x[1] q == c.x[2] IN
    /\ Voigt(p, q) \in I6
    /\ Voigt(p, q) = VoigtIdx(p, q)
    /\ Voigt(p, q) - 1 = (IF p = q THEN p - 1 ELSE 7 - (p - 1) - (q - 1) - 1)
    /\ Voigt(p, q) = Voigt(q, p)
    /\ VoigtPair(Voigt(p, q)) \in {<<p, q>>, <<q, p>>}
SymmetryLemma == c.kind = "t4" =>
    \A b \in SymBasis : LET T == C4(BasisMat6(b)) x == c.x IN
       /\ T[x] = T[<<x[2], x[1], x[3], x[4]>>]
       /\ T[x] = T[<<x[1], x[2], x[4], x[3]>>]
       /\ T[x] = T[<<x[3], x[4], x[1], x[2]>>]
       /\ T[x] = BasisMat6(b)[Voigt(x[1], x[2])][Voigt(x[3], x[4])]
       /\ C4(BasisMat6(b)) = ToTensor(BasisMat6(b))
CountLemma == c.kind = "m6" =>
    LET i == c.ij[1] j == c.ij[2] IN
    /\ Cardinality(Pre(i, j)) = Mult(i) * Mult(j)
    /\ Voigt(VoigtPair(i)[1], VoigtPair(i)[2]) = i
    /\ <<VoigtPair(i)[1], VoigtPair(i)[2], VoigtPair(j)[1], VoigtPair(j)[2]>> \in Pre(i, j)
AllRepresentativesAgree == c.kind = "m6" =>
    LET i == c.ij[1] j == c.ij[2] IN
    \A b \in SymBasis : LET B == BasisMat6(b) T == C4(B) IN \A x \in Pre(i, j) : T[x] = B[i][j]
InverseLemma == c.kind = "m6" =>
    LET i == c.ij[1] j == c.ij[2] IN
    \A b \in SymBasis : LET B == BasisMat6(b) IN Mat6(C4(B))[i][j] = B[i][j] /\ Mat6(C4(B))[i][j] = Mat6(C4(B))[j][i]
WeightLemma == c.kind = "m6" =>
    LET i == c.ij[1] j == c.ij[2] k == VecIndex(i, j) IN
    /\ VecPos[k] \in {<<i, j>>, <<j, i>>}
    /\ Cardinality({n \in I21 : VecPos[n] \in {<<i, j>>, <<j, i>>}}) = 1
    /\ SMul(VecWeight(k), VecWeight(k)) = SQ(Q(Cardinality(Pre(i, j) \cup Pre(j, i))))
    /\ SMul(VecWeight(k), VecWeightInv(k)) = SOne
VecTableLemma == Cardinality({VecPos[k] : k \in I21}) = 21 /\ {VecPos[k] : k \in I21} = SymBasis

\* negative control (TensorsIdx_neg.cfg substitutes it for VecPos): C14 and C15, and C23 and C44,
\* exchanged in the vector table - WeightLemma / VecTableLemma keep holding only if the table is the documented one
BadVecPos == << <<1, 1>>, <<2, 2>>, <<3, 3>>, <<4, 4>>, <<1, 3>>, <<1, 2>>,
                <<2, 3>>, <<5, 5>>, <<6, 6>>, <<1, 5>>, <<2, 5>>, <<3, 6>>,
                <<3, 4>>, <<1, 4>>, <<2, 6>>, <<2, 4>>, <<3, 5>>, <<1, 6>>,
                <<5, 6>>, <<4, 6>>, <<4, 5>> >>
Expected == IF c.kind = "seed" THEN c ELSE IF c.kind = "t4"
            THEN [kind |-> "t4", x |-> c.x, ij |-> <<Voigt(c.x[1], c.x[2]), Voigt(c.x[3], c.x[4])>>]
            ELSE [kind |-> "m6", ij |-> c.ij, pre |-> Pre(c.ij[1], c.ij[2]),
                  k |-> VecIndex(c.ij[1], c.ij[2]), w |-> VecWeight(VecIndex(c.ij[1], c.ij[2]))]
Emit == c.kind = "seed" \/ PrintT(<<"CASE", ToJson(Expected)>>)
=============================================================================
