INIT TInit
NEXT TNext
INVARIANT Verdict
CHECK_DEADLOCK FALSE
