SPECIFICATION DSpec
CONSTANTS
  MineralSeq <- MS2
  StepChoices = {1, 2, 3, 4, 6}
  MayReject = TRUE
  MayTraceFail = FALSE
  MaxRuns = 2
INVARIANT EmitAtEnd
CHECK_DEADLOCK FALSE
