SPECIFICATION Spec
CONSTANTS
  D = 6
  MaxG = 3
INVARIANT Lemmas
CHECK_DEADLOCK FALSE
