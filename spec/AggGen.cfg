SPECIFICATION Spec
CONSTANTS
  D = 6
  MaxG = 3
INVARIANT Lemmas
INVARIANT Lumping
CHECK_DEADLOCK FALSE
