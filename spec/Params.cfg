INIT PInit
NEXT PNext
INVARIANT ChainReachesRoot
INVARIANT OverrideWins
INVARIANT InheritOtherwise
INVARIANT RootIsTotal
INVARIANT RoundTripLemma
INVARIANT DictDomain
INVARIANT FrozenLemma
INVARIANT NoAliasLemma
INVARIANT Emit
CHECK_DEADLOCK FALSE
