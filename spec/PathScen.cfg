INIT ScenInit
NEXT ScenNext
CONSTANT Tier = "quick"
INVARIANT ScenInSpace
INVARIANT ScenEmit
CHECK_DEADLOCK FALSE
