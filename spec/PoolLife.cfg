SPECIFICATION Spec
CONSTANTS
  Pools = {"proc", "thread", "sched"}
  Sizes = {1, 3}
  Avail = {1, 2, 3, 16}
  MaxOps = 6
VIEW View
INVARIANT SuppliedCallsSucceed
INVARIANT DefaultUsable
PROPERTY OnlyClientCloses
CHECK_DEADLOCK FALSE
