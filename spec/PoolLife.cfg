SPECIFICATION Spec
CONSTANTS
  Pools = {"proc", "thread", "sched"}
  Sizes = {1, 3}
  MaxOps = 6
VIEW View
INVARIANT SuppliedCallsSucceed
PROPERTY OnlyClientCloses
CHECK_DEADLOCK FALSE
