INIT CInit
NEXT CNext
CONSTANTS
  MaxPresent = 2
  MaxOmitted = 1
INVARIANT OkImpliesPost
INVARIANT FaultsRejected
INVARIANT DefaultsParse
INVARIANT HeadersCoverKeys
INVARIANT DemandsTotal
INVARIANT ListKeysDecide
INVARIANT ValidShapesParse
INVARIANT SelectionsSimulated
INVARIANT Emit
CHECK_DEADLOCK FALSE
