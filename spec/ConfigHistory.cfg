SPECIFICATION Spec
CONSTANTS
  Files = {1, 2, 3}
  Digests = {"a", "b"}
INVARIANT FunctionOfFile
CONSTRAINT Bound
CHECK_DEADLOCK FALSE
