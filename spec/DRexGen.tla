------------------------------ MODULE DRexGen -------------------------------
(* Case generator / exhaustive prover for C02, C03, C04 (rate level).                          *)
(* One initial state per (fabric, velocity gradient, regime) ; successors = orientation sets.  *)
EXTENDS DRexRates, SequencesExt
CONSTANTS RotB,        \* bound on integer quaternion entries for the generic rotations
          NGen,        \* how many generic rotations to use (a deterministic slice), 0 = all
          NOcta,       \* how many of the 24 axis-aligned rotations to use, 0 = all
          QCount,      \* how many frame rotations per case for the covariance lemma
          Multi        \* TRUE: also emit multi-grain aggregate cases
VARIABLE st

Ls == { IntMat(<<<<0,0,2>>,<<0,0,0>>,<<0,0,0>>>>),  IntMat(<<<<0,0,0>>,<<0,0,0>>,<<2,0,0>>>>),
        IntMat(<<<<0,2,0>>,<<0,0,0>>,<<0,0,0>>>>),  IntMat(<<<<0,0,0>>,<<2,0,0>>,<<0,0,0>>>>),
        IntMat(<<<<0,0,0>>,<<0,0,2>>,<<0,0,0>>>>),  IntMat(<<<<0,0,0>>,<<0,0,0>>,<<0,2,0>>>>),
        IntMat(<<<<1,0,0>>,<<0,-1,0>>,<<0,0,0>>>>), IntMat(<<<<1,0,0>>,<<0,0,0>>,<<0,0,-1>>>>),
        IntMat(<<<<0,0,0>>,<<0,1,0>>,<<0,0,-1>>>>),
        IntMat(<<<<1,0,0>>,<<0,1,0>>,<<0,0,-2>>>>), IntMat(<<<<-1,0,0>>,<<0,-1,0>>,<<0,0,2>>>>),
        IntMat(<<<<1,2,0>>,<<-1,0,1>>,<<0,1,-1>>>>), IntMat(<<<<2,1,-1>>,<<0,-1,3>>,<<1,0,1>>>>),
        IntMat(<<<<0,3,-2>>,<<1,1,0>>,<<2,-1,-1>>>>), IntMat(<<<<1,1,1>>,<<-2,0,1>>,<<0,-3,2>>>>),
        IntMat(<<<<0,-1,0>>,<<1,0,0>>,<<0,0,0>>>>) }                \* pure rotation: zero strain rate
Regimes == {4, 6}
GenRots == GenericRots(RotB)
\* deterministic slice of the generic rotations
GenSeq == TLCEval(SetToSeq(GenRots))
OctaSeq == TLCEval(SetToSeq(OctaRots))
GenSlice(fab, L) == IF NGen = 0 THEN GenRots
                    ELSE LET n == Len(GenSeq) IN {GenSeq[((k * 7) % n) + 1] : k \in 1..NGen}
FrameRots == {OctaSeq[((k * 5) % 24) + 1] : k \in 1..QCount}

\* velocity gradients with an axis-aligned strain rate: no slip is resolved on an axis-aligned grain
DiagLs == { IntMat(<<<<1,0,0>>,<<0,-1,0>>,<<0,0,0>>>>), IntMat(<<<<1,0,0>>,<<0,0,0>>,<<0,0,-1>>>>), IntMat(<<<<0,0,0>>,<<0,1,0>>,<<0,0,-1>>>>),
            IntMat(<<<<1,0,0>>,<<0,1,0>>,<<0,0,-2>>>>), IntMat(<<<<-1,1,0>>,<<-1,-1,0>>,<<0,0,2>>>>) }   \* last: with vorticity
SkewWs == { IntMat(<<<<0,-1,2>>,<<1,0,-1>>,<<-2,1,0>>>>), IntMat(<<<<0,3,1>>,<<-3,0,2>>,<<-1,-2,0>>>>), IntMat(<<<<0,0,1>>,<<0,0,0>>,<<-1,0,0>>>>) }
Init == \/ \E fab \in Fabs, L \in Ls, rg \in Regimes : st = [phase |-> "go", fab |-> fab, L |-> L, regime |-> rg]
        \/ \E fab \in Fabs, L \in DiagLs, rg \in Regimes : st = [phase |-> "golimit", fab |-> fab, L |-> L, regime |-> rg]
OctaSlice == IF NOcta = 0 THEN OctaRots ELSE {OctaSeq[((k * 7) % 24) + 1] : k \in 1..NOcta}
SingleGrain == \E A \in OctaSlice \cup GenSlice(st.fab, st.L) :
      LET c == [fab |-> st.fab, regime |-> st.regime, L |-> st.L, As |-> <<A>>, f |-> <<QOne>>]
          ks == TLCEval(Kernels(c))
      IN st' = [phase |-> "case", c |-> c, ks |-> ks, prog |-> TLCEval(CaseProgram(c, ks))]
Vols == { <<<<1, 2>>, <<1, 2>>>>, <<<<1, 4>>, <<3, 4>>>>, <<QZ, QOne>>,
          <<<<1, 3>>, <<1, 3>>, <<1, 3>>>>, <<<<1, 12>>, <<1, 12>>, <<5, 6>>>>, <<<<1, 2>>, QZ, <<1, 2>>>> }
MultiGrain == Multi /\ \E f \in Vols :
      LET n == Len(f)
          pick(g) == GenSeq[((g * 11 + Len(GenSeq) \div 3) % Len(GenSeq)) + 1]
          As == [g \in 1..n |-> pick(g)]
          c == [fab |-> st.fab, regime |-> st.regime, L |-> st.L, As |-> As, f |-> f]
          ks == TLCEval(Kernels(c))
      IN st' = [phase |-> "case", c |-> c, ks |-> ks, prog |-> TLCEval(CaseProgram(c, ks))]
\* nearly degenerate grains: grain 1 is A(delta) = (1 + delta W) A0 with A0 axis-aligned (no slip resolved
\* at delta = 0), judged against the first-order limit kernel; grain 2 is a generic companion so that the
\* volume rates see the energy of grain 1
NearDegenerate == \E A0 \in OctaSlice, W \in (IF NOcta = 0 THEN SkewWs ELSE {IntMat(<<<<0,-1,2>>,<<1,0,-1>>,<<-2,1,0>>>>)}),
                     f \in (IF NOcta = 0 THEN {<<QHalf, QHalf>>, <<<<1, 4>>, <<3, 4>>>>} ELSE {<<<<1, 4>>, <<3, 4>>>>}) :
      LET A2 == GenSeq[((Len(GenSeq) \div 2) % Len(GenSeq)) + 1]
          c == [fab |-> st.fab, regime |-> st.regime, L |-> st.L, As |-> <<A0, A2>>, f |-> f]
          k1 == LimitKernel(st.fab, A0, W, st.L)
          ks == TLCEval(<<k1, Kernel(st.fab, A2, st.L)>>)
      IN /\ \A s \in S4 : SlipInv(MEval(MSym(st.L)), A0, s) = QZ          \* really degenerate at delta = 0
         /\ st' = [phase |-> "case", c |-> c, ks |-> ks,
                   prog |-> TLCEval([CaseProgram(c, ks) EXCEPT !.limit = TRUE] @@ [W |-> MatToSeq(W)])]
Next == \/ st.phase = "go" /\ (SingleGrain \/ MultiGrain)
        \/ st.phase = "golimit" /\ NearDegenerate
Spec == Init /\ [][Next]_st

\* ---- invariants
LemmasHold == st.phase = "case" => st.prog.lemmas
\* C04 on the exact domain: covariance under frame rotations and crystal two-folds, all betas
FrameLemma == (st.phase = "case" /\ Len(st.c.As) = 1 /\ ~st.prog.limit) =>
    LET A == st.c.As[1]  L == st.c.L  k == st.ks[1] IN
      /\ \A Qm \in FrameRots :
            Covariant(k, Kernel(st.c.fab, MEval(MMul(A, MT(Qm))), MEval(MMul(MMul(Qm, L), MT(Qm)))), Qm)
      /\ k.tie \/ \A Sd \in TwoFolds : TwoFold(k, Kernel(st.c.fab, MEval(SMat(Sd, A)), L), Sd)
LemmaDebug == st.phase = "case" =>
    LET k == st.ks[1] IN
    (KernelLemmas(k) \/ PrintT(<<"LEMMAFAIL", st.c.fab, IsRotation(k.A), RolesArePermutation(k), SkewU(k.A, k.U), SkewV(k.A, k.V), R1Closed(k), PIsLinear(k.R2), k.dead, k.unresolved, k.R1, k.roles>>))
Emit == st.phase = "case" => PrintT(<<"CASE", ToJson(st.prog)>>)
=============================================================================
