---------------------------- MODULE TensorsProj -----------------------------
(***************************************************************************)
(* C11 driver 4: the symmetry-class projectors of Browaeys & Chevrot       *)
(* (2004) on 21-vectors over Q(sqrt2).  With e_k the unit vectors of R^21, *)
(* B_b the basis matrices and G(c) the point group that DEFINES class c    *)
(* (C2 about x3, D2, D4; for the hexagonal class a rotation about x3 of    *)
(* infinite order), TLC proves                                             *)
(*   Idempotent     P(P e_k) = P e_k                    (every k, class);  *)
(*   SelfAdjoint    <P e_k, e_j> = <e_k, P e_j>         (all 21 x 21);     *)
(*   Nested         P_hi P_lo = P_hi = P_lo P_hi for every pair of classes *)
(*                  mono > ortho > tetr > hex           (every k);         *)
(*   RankLemma      trace P = 13, 9, 6, 5 = number of independent          *)
(*                  constants of the class;                                *)
(*   GroupAverageLemma  for mono / ortho / tetr the projection of B_b, as  *)
(*                  a 4th-order tensor, equals the average of Rotate(C, g) *)
(*                  over g in G(c): the documented matrices ARE the        *)
(*                  orthogonal projectors onto the G(c)-invariant tensors; *)
(*   HexLemma       the hexagonal projection of B_b is rational, invariant *)
(*                  under the infinite-order rotation (hence transversely  *)
(*                  isotropic), P fixes the five generators of the         *)
(*                  documented hexagonal constraints, and those are        *)
(*                  invariant too: with rank 5 the range is exactly that   *)
(*                  subspace;                                              *)
(*   Pythagoras     |x|^2 = |P x|^2 + |x - P x|^2 on the triclinic family; *)
(* and emits P e_k (all k, classes), the projections of the triclinic      *)
(* family, and of the five hexagonal generators.                           *)
(***************************************************************************)
EXTENDS Tensors, Json
CONSTANT NTric
VARIABLE c
ClassSet == {Classes[n] : n \in 1..4}
Higher(a, b) == ClassDim(a) > ClassDim(b)       \* class a is the larger subspace
Init == c \in {[kind |-> "seed", k |-> k] : k \in I21}
Next == /\ c.kind = "seed"
        /\ \/ c' = [kind |-> "unit", k |-> c.k]
           \/ c' \in {[kind |-> "pair", k |-> c.k, j |-> j] : j \in I21}
           \/ c' = [kind |-> "basis", b |-> VecPos[c.k]]
           \/ c' \in {[kind |-> "gen", h |-> h] : h \in {g \in 1..5 : g = c.k}}
           \/ c' \in {[kind |-> "tric", n |-> n] : n \in {m \in 1..NTric : m % 21 = c.k % 21}}
           \/ (c.k = 1 /\ c' = [kind |-> "rank"])

Idempotent == c.kind = "unit" =>
    \A cl \in ClassSet : LET y == Project(cl, Unit21(c.k)) IN Project(cl, y) = y
Nested == c.kind = "unit" =>
    \A a \in ClassSet, b \in ClassSet : Higher(a, b) =>
       LET e == Unit21(c.k) IN
       /\ Project(b, Project(a, e)) = Project(b, e)
       /\ Project(a, Project(b, e)) = Project(b, e)
SelfAdjoint == c.kind = "pair" =>
    \A cl \in ClassSet : XDot(Project(cl, Unit21(c.k)), Unit21(c.j)) = XDot(Unit21(c.k), Project(cl, Unit21(c.j)))
RankLemma == c.kind = "rank" =>
    \A cl \in ClassSet :
       FoldSet(LAMBDA k, acc : SAdd(PEntry(cl, k, k), acc), SZ, I21) = SQ(Q(ClassDim(cl)))
GroupLemma == c.kind = "rank" =>
    /\ Cardinality(GroupOf("mono")) = 2 /\ Cardinality(GroupOf("ortho")) = 4 /\ Cardinality(GroupOf("tetr")) = 8
    /\ GroupOf("mono") \subseteq GroupOf("ortho") /\ GroupOf("ortho") \subseteq GroupOf("tetr")
    /\ \A cl \in {"mono", "ortho", "tetr"} : \A g \in GroupOf(cl), h \in GroupOf(cl) :
          MEval(MMul(g, h)) \in {MEval(x) : x \in GroupOf(cl)}
    /\ IsRotation(Rz345)
\* projection of a rational 6x6 matrix, as a matrix
ProjS(cl, M) == Vec2SMat(Project(cl, Mat2Vec(M)))
GroupAverageLemma == c.kind = "basis" =>
    LET B == BasisMat6(c.b) IN
    \A cl \in {"mono", "ortho", "tetr"} :
       /\ SMatIsRational(ProjS(cl, B))
       /\ C4(SMatRational(ProjS(cl, B))) = GroupAverage(C4(B), {MEval(g) : g \in GroupOf(cl)})
HexLemma == /\ c.kind = "basis" =>
               LET S == ProjS("hex", BasisMat6(c.b)) T == C4(SMatRational(S)) IN
               SMatIsRational(S) /\ TRotate(T, Rz345) = T
            /\ c.kind = "gen" =>
               LET H == HexGen(c.h) X == Mat2Vec(H) IN
               /\ Project("hex", X) = X
               /\ TRotate(C4(H), Rz345) = C4(H)
               /\ \A cl \in ClassSet : Project(cl, X) = X          \* hexagonal tensors lie in every class
Pythagoras == c.kind = "tric" =>
    LET x == Mat2Vec(Tric(c.n)) IN
    \A cl \in ClassSet : LET y == Project(cl, x) IN XNorm2(x) = SAdd(XNorm2(y), XNorm2(XSub(x, y)))

Proj4(x) == [mono |-> Project("mono", x), ortho |-> Project("ortho", x),
             tetr |-> Project("tetr", x), hex |-> Project("hex", x)]
Expected ==
    IF c.kind = "unit" THEN [kind |-> "unit", k |-> c.k, x |-> Unit21(c.k), P |-> Proj4(Unit21(c.k))]
    ELSE IF c.kind = "tric" THEN [kind |-> "tric", n |-> c.n, x |-> Mat2Vec(Tric(c.n)), P |-> Proj4(Mat2Vec(Tric(c.n)))]
    ELSE [kind |-> "gen", h |-> c.h, x |-> Mat2Vec(HexGen(c.h)), P |-> Proj4(Mat2Vec(HexGen(c.h)))]
Emit == c.kind \notin {"unit", "tric", "gen"} \/ PrintT(<<"CASE", ToJson(Expected)>>)
=============================================================================
