INIT Init
NEXT Next
CONSTANT Tier = "quick"
CONSTANT Plant = "spectrum"
INVARIANT OffPlaneZero
INVARIANT ShearExact
INVARIANT CellTraceFree
INVARIANT CornerExact
INVARIANT StrainSpectrum
CHECK_DEADLOCK FALSE
