INIT GenInit
NEXT GenNext
CONSTANTS
  SphB = 3
  TrigB = 12
  PythB = 20
  DiskN = 10
  PoleRots <- ThoroughRots
  GridSteps = {3, 6, 11, 20, 51, 101}
  DataN = {1, 7, 40, 100, 130}
  BigDataN = {2000, 4633, 20011}
  DataClasses <- AllDataClasses
  Weights <- ThoroughWeights
INVARIANT AzTableLemma
INVARIANT ColatLemma
INVARIANT RoundTripSq
INVARIANT RoundTripTrig
INVARIANT PoleLemma
INVARIANT LambertLemma
INVARIANT LiftLemma
INVARIANT DensityScenarioLemma
INVARIANT Emit
CHECK_DEADLOCK FALSE
