\* C10 history machine: tensors are read from the passed object at call time (quick: depth 3 + scripts)
INIT Init
NEXT Next
CONSTANTS
  Tier = "quick"
  Mode = "history"
INVARIANT HistCurrentIsLastSet
INVARIANT HistCallTime
INVARIANT HistAlignedReturnsCurrent
INVARIANT HistDefaultFixed
INVARIANT HistSymmetric
INVARIANT HistEmit
CHECK_DEADLOCK FALSE
