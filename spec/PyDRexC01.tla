---- MODULE PyDRexC01 ----
(* C01 scenario generator: update histories of minerals of every supported (phase, fabric) in   *)
(* every accepted regime (incl. regime callbacks switching between accepted regimes), over flow *)
(* classes (simple/pure shear, axisymmetric, general 3-D with vorticity, non-zero trace, time-   *)
(* and position-dependent, zero), initial texture classes, grain counts and parameter classes.   *)
(* Only construction and accepted updates: the validity law is judged by MineralTrace.tla.       *)
EXTENDS PyDRex
CONSTANT Ns
Valid == {<<0, 0>>, <<0, 1>>, <<0, 2>>, <<0, 3>>, <<0, 4>>, <<1, 5>>}
AcceptedRegimes == {0, 1, 4, 6, 7}
C01Configs == {[phase |-> pf[1], fabric |-> pf[2], regime |-> r, n |-> n] : pf \in Valid, r \in AcceptedRegimes, n \in Ns}
\* phiOl = 10 / 0: a two-phase assemblage in which one phase has volume fraction exactly zero
C01Pars == {[M |-> m, chi |-> c, asm |-> <<0, 1>>, phiOl |-> ph, x |-> <<l, pn>>] :
              m \in {0, 10, 125, 200}, c \in {0, 3, 9}, l \in {0, 5, 50}, pn \in {0, 1, 2}, ph \in {7, 10, 0}}
\* long single-mineral histories with strong boundary mobility and no sliding floor: grains
\* shrink towards zero volume, where the solver's absolute tolerance can push them negative
C01LongConfigs == {[phase |-> 0, fabric |-> f, regime |-> r, n |-> n] : f \in {0, 1, 3}, r \in {4, 6}, n \in Ns}
C01LongPars == {[M |-> m, chi |-> 0, asm |-> <<0>>, phiOl |-> 10, x |-> <<5, 0>>] : m \in {125, 200}}
C01Next == \E m \in Minerals :
              \/ \E c \in Configs, s \in Seeds, tx \in Textures : Create(m, c, s, tx, InitO(s, c.n, tx), InitF(c.n, tx))
              \/ \E fl \in Flows, par \in Pars, cb \in Callbacks \cup {NoCb} :
                    cfg[m] # NULL /\
                    UpdateOk(m, fl, par, cb, NextOP(Last(hist[m]), cfg[m], EffRegime(m, cb), fl, par, Fm[m]),
                                             NextFP(Last(hist[m]), cfg[m], EffRegime(m, cb), fl, par, Fm[m]))
C01Spec == Init /\ [][C01Next]_vars
\* seed reproducibility of the default-constructed texture: every ordered pair of constructions
\* (the call log is part of the state, so all pairs are enumerated); equal (seed, n) => equal term
C01SeedConfigs == {[phase |-> p, fabric |-> IF p = 0 THEN 0 ELSE 5, regime |-> 4, n |-> n] : p \in {0, 1}, n \in Ns}
C01SeedNext == \E m \in Minerals, c \in Configs, s \in Seeds : Create(m, c, s, "random", InitO(s, c.n, "random"), InitF(c.n, "random"))
C01SeedSpec == Init /\ [][C01SeedNext]_vars
====
