------------------------------- MODULE PyDRex -------------------------------
(***************************************************************************)
(* Layer B: the PyDRex system machine.                                     *)
(*                                                                         *)
(* One action per public call of the library (the linearisation point of a *)
(* sequential library is the call's return, error path included):          *)
(*   Mineral(...)                      -> Create                           *)
(*   Mineral.update_orientations(...)  -> UpdateOk / UpdateRejected /      *)
(*                                        UpdatePhaseAbsent                *)
(*   pydrex.update_all(...)            -> UpdateAllOk / UpdateAllPartial   *)
(*   Mineral.save(file, postfix)       -> SavePostfix / SaveWholeFile /    *)
(*                                        SaveCorrupt                      *)
(*   Mineral.load / Mineral.from_file  -> Load / FromFile / LoadBadName    *)
(*                                                                         *)
(* Texture contents are abstract *content terms*: the new content after an *)
(* update is a function of the previous content of the SAME mineral, of    *)
(* the mineral's own configuration and of the call's inputs - nothing      *)
(* else.  That is the design claim behind C08 (no hidden shared state),    *)
(* C07 (null forcing keeps content) and C01 (append-only histories).  The  *)
(* replayer binds terms to SHA-256 digests of the real arrays: equal terms *)
(* must give bit-identical arrays, within one behaviour and across all     *)
(* behaviours of a run.  The trace specification (MineralTrace.tla) reuses *)
(* these actions with the new contents bound to logged digests.            *)
(*                                                                         *)
(* Deviations of the code from the ideal are *named actions*:              *)
(*   SaveWholeFile    - save without postfix rewrites the whole archive    *)
(*                      (drops every postfixed entry)                      *)
(*   SavePostfix      - appends; a repeated postfix shadows, never merges  *)
(*   UpdateAllPartial - a rejected mineral in update_all leaves the ones   *)
(*                      before it updated                                  *)
(*   UpdatePhaseAbsent- phase not in the assemblage: RuntimeError from the *)
(*                      solver wrapper, history untouched                  *)
(*   callback regime  - get_regime overwrites Mineral.regime even when the *)
(*                      update is then rejected (configuration, not        *)
(*                      history)                                           *)
(***************************************************************************)
EXTENDS Integers, Sequences, FiniteSets, TLC, TLCExt, SequencesExt, Json, DispatchDef

CONSTANTS Minerals,     \* mineral handles
          Files,        \* archive names
          Postfixes,    \* postfix strings
          Configs,      \* set of [phase, fabric, regime, n] records offered to Create
          Seeds,        \* seeds offered to Create
          Textures,     \* initial texture classes; "nonuniform" has strongly unequal volumes
          Flows,        \* flow class names; "zero" is the zero velocity gradient
          Pars,         \* parameter records [M, chi, asm, phiOl, x]  (chi, phiOl in tenths; x = <<lambda*, pn class>>)
          Callbacks,    \* regimes a get_regime callback may return; NoCb = no callback
          MaxUpd,       \* bound on successful updates per mineral
          MaxOps        \* bound on the total number of calls

NULL == <<>>

\* ---------------------------------------------------------------- state
VARIABLES cfg,     \* [Minerals -> NULL or [phase, fabric, regime, n]]
          hist,    \* [Minerals -> Seq([o : term, f : term])]
          nUpd,    \* [Minerals -> Nat]   successful updates
          Fm,      \* [Minerals -> Seq(flow)]  deformation-gradient path handed back to the client
          disk,    \* [Files -> [Key -> [meta, n, hist]]]  Key = postfix or "none"
          err,     \* outcome class of the last call
          ops,     \* number of calls so far
          log      \* observation only: the calls made so far with their arguments (hidden by VIEW)
vars == <<cfg, hist, nUpd, Fm, disk, err, ops, log>>

\* content terms ----------------------------------------------------------------
\* Contents are VALUES: the texture classes "layout" (client arrays that are not C-contiguous / strided views) and
\* "layoutc" (the same numbers in plain C-ordered arrays) denote the same initial content, so every later snapshot
\* of two such minerals driven identically must be bit-identical too (representation independence, bound by the
\* term-to-digest rule like everything else).
TexCanon(tex) == IF tex = "layoutc" THEN "layout" ELSE tex
InitO(seed, n, tex) == <<"o0", <<seed, n, TexCanon(tex)>>>>
InitF(n, tex)       == <<"f0", <<n, TexCanon(tex)>>>>
\* no grain of this volume content can sit under the sliding floor chi/n (chi < 1):
\* true for the uniform initial volumes 1/n of every texture class except "nonuniform"
Floorless(f) == f[1] = "f0" /\ f[2][2] # "nonuniform"
\* everything the update of ONE mineral may depend on
\* par.x = <<lambda*, (p, n) class>>: the remaining recrystallisation / rheology parameters
StepKey(c, r, fl, par) == <<c.phase, c.fabric, r, c.n, fl, par.M, par.chi, Phi(c.phase, par), par.x>>
\* `path` is the flow path of the deformation gradient handed in (and, through its length, the time origin of the
\* call): the diffusion regime uses the spin of L.F, and in every regime F is part of the solver's state vector, so
\* bit-for-bit results depend on it
NextOP(prev, c, r, fl, par, path) ==
    IF NullReg(r) \/ fl = "zero" THEN prev.o
    ELSE <<"upd", <<prev.o, prev.f, StepKey(c, r, fl, par), path>>>>
\* volume fractions stay put under null forcing, in the diffusion regime (zero volume rates)
\* and with zero mobility - provided no grain sits under the sliding floor (otherwise the
\* flooring of C09 legitimately moves them): chi = 0, or volumes that never left 1/n.
FracFrozen(prevF, r, fl, par) ==
    /\ NullReg(r) \/ fl = "zero" \/ DiffusionReg(r) \/ par.M = 0
    /\ Floorless(prevF) \/ par.chi = 0
NextFP(prev, c, r, fl, par, path) ==
    IF FracFrozen(prev.f, r, fl, par) THEN prev.f
    ELSE <<"updf", <<prev.o, prev.f, StepKey(c, r, fl, par), path>>>>

Init == /\ cfg  = [m \in Minerals |-> NULL]
        /\ hist = [m \in Minerals |-> <<>>]
        /\ nUpd = [m \in Minerals |-> 0]
        /\ Fm   = [m \in Minerals |-> <<>>]
        /\ disk = [f \in Files |-> <<>>]       \* absent file = empty function
        /\ err = "None" /\ ops = 0 /\ log = <<>>

Tick == ops < MaxOps /\ ops' = ops + 1
Log(e) == log' = Append(log, e)

\* ---------------------------------------------------------------- construction
\* the initial contents are parameters (model: the terms InitO/InitF; trace: logged digests)
Create(m, c, seed, tex, o0, f0) ==
    /\ Tick /\ Log([a |-> "Create", m |-> m, c |-> c, seed |-> seed, tex |-> tex]) /\ cfg[m] = NULL
    /\ cfg'  = [cfg EXCEPT ![m] = c]
    /\ hist' = [hist EXCEPT ![m] = << [o |-> o0, f |-> f0] >>]
    /\ err' = "None" /\ UNCHANGED <<nUpd, Fm, disk>>

\* ---------------------------------------------------------------- updates
\* a callback code >= 100 is a callback that returns the mineral's current regime during the first
\* half of the interval and regime (cb - 100) afterwards: the update fails part-way through
CbRegime(cb) == IF cb >= 100 THEN cb - 100 ELSE cb
EffRegime(m, cb) == IF cb = NoCb THEN cfg[m].regime ELSE CbRegime(cb)
WithRegime(m, cb) == [cfg EXCEPT ![m] = [@ EXCEPT !.regime = EffRegime(m, cb)]]

\* the new contents are parameters so that a trace specification can bind them to what
\* the implementation produced; ContentOK states what the properties promise about them.
ContentOK(m, r, fl, par, newO, newF) ==
    LET last == Last(hist[m]) IN
    /\ (NullReg(r) \/ fl = "zero") => newO = last.o
    /\ FracFrozen(last.f, r, fl, par) => newF = last.f

UpdateOk(m, fl, par, cb, newO, newF) ==
    /\ Tick /\ Log([a |-> "UpdateOk", m |-> m, fl |-> fl, par |-> par, cb |-> cb]) /\ cfg[m] # NULL /\ nUpd[m] < MaxUpd
    /\ cb < 100                      \* late-switching callbacks are modelled for rejections only
    /\ Dispatch(cfg[m], EffRegime(m, cb), par) \in OkClasses
    /\ ContentOK(m, EffRegime(m, cb), fl, par, newO, newF)
    /\ hist' = [hist EXCEPT ![m] = Append(@, [o |-> newO, f |-> newF])]
    /\ nUpd' = [nUpd EXCEPT ![m] = @ + 1]
    /\ Fm'   = [Fm EXCEPT ![m] = Append(@, fl)]
    /\ cfg'  = WithRegime(m, cb)
    /\ err' = "None" /\ UNCHANGED disk

UpdateRejected(m, fl, par, cb) ==
    /\ Tick /\ Log([a |-> "UpdateRejected", m |-> m, fl |-> fl, par |-> par, cb |-> cb]) /\ cfg[m] # NULL
    /\ Dispatch(cfg[m], EffRegime(m, cb), par) \in RejClasses
    \* a late-switching callback presupposes that the first half of the interval is integrable
    /\ cb >= 100 => Dispatch(cfg[m], cfg[m].regime, par) \in {"null", "diffusion", "texture"}
    /\ cfg' = WithRegime(m, cb)              \* named deviation: the callback's regime sticks
    /\ err' = "ValueError"
    /\ UNCHANGED <<hist, nUpd, Fm, disk>>

UpdatePhaseAbsent(m, fl, par, cb) ==
    /\ Tick /\ Log([a |-> "UpdatePhaseAbsent", m |-> m, fl |-> fl, par |-> par, cb |-> cb]) /\ cfg[m] # NULL
    /\ Dispatch(cfg[m], EffRegime(m, cb), par) = "absent"
    /\ err' = "RuntimeError"
    /\ UNCHANGED <<cfg, hist, nUpd, Fm, disk>>   \* the callback is never consulted

\* update_all over a sequence of distinct minerals that share the client's F
AllOk(ms, fl, par) == \A k \in 1..Len(ms) :
    /\ cfg[ms[k]] # NULL /\ nUpd[ms[k]] < MaxUpd
    /\ Dispatch(cfg[ms[k]], cfg[ms[k]].regime, par) \in OkClasses
SameF(ms) == \A j, k \in 1..Len(ms) : Fm[ms[j]] = Fm[ms[k]]
InSeq(m, ms) == \E k \in 1..Len(ms) : ms[k] = m

\* `news` maps each updated mineral to its new snapshot [o, f] (model: NextO/NextF terms;
\* trace: logged digests); each must satisfy ContentOK.
ModelNews(fl, par) == [m \in Minerals |-> IF cfg[m] = NULL THEN <<>> ELSE
                        [o |-> NextOP(Last(hist[m]), cfg[m], cfg[m].regime, fl, par, Fm[m]),
                         f |-> NextFP(Last(hist[m]), cfg[m], cfg[m].regime, fl, par, Fm[m])]]
UpdateAllOk(ms, fl, par, news) ==
    /\ Tick /\ Log([a |-> "UpdateAllOk", ms |-> ms, fl |-> fl, par |-> par]) /\ Len(ms) >= 1 /\ AllOk(ms, fl, par) /\ SameF(ms)
    /\ \A k \in 1..Len(ms) : ContentOK(ms[k], cfg[ms[k]].regime, fl, par, news[ms[k]].o, news[ms[k]].f)
    /\ hist' = [m \in Minerals |-> IF InSeq(m, ms) THEN Append(hist[m], news[m]) ELSE hist[m]]
    /\ nUpd' = [m \in Minerals |-> IF InSeq(m, ms) THEN nUpd[m] + 1 ELSE nUpd[m]]
    /\ Fm'   = [m \in Minerals |-> IF InSeq(m, ms) THEN Append(Fm[m], fl) ELSE Fm[m]]
    /\ err' = "None" /\ UNCHANGED <<cfg, disk>>

\* named deviation: the k-th mineral is refused; minerals 1..k-1 have already been updated
UpdateAllPartial(ms, k, fl, par, news) ==
    /\ Tick /\ Log([a |-> "UpdateAllPartial", ms |-> ms, k |-> k, fl |-> fl, par |-> par]) /\ k \in 1..Len(ms) /\ SameF(ms)
    /\ \A j \in 1..Len(ms) : cfg[ms[j]] # NULL
    /\ AllOk(SubSeq(ms, 1, k - 1), fl, par)
    /\ Dispatch(cfg[ms[k]], cfg[ms[k]].regime, par) \in RejClasses \cup {"absent"}
    /\ \A j \in 1..(k - 1) : ContentOK(ms[j], cfg[ms[j]].regime, fl, par, news[ms[j]].o, news[ms[j]].f)
    /\ LET done(m) == InSeq(m, SubSeq(ms, 1, k - 1)) IN
       /\ hist' = [m \in Minerals |-> IF done(m) THEN Append(hist[m], news[m]) ELSE hist[m]]
       /\ nUpd' = [m \in Minerals |-> IF done(m) THEN nUpd[m] + 1 ELSE nUpd[m]]
       /\ Fm'   = [m \in Minerals |-> IF done(m) THEN Append(Fm[m], fl) ELSE Fm[m]]
    /\ err' = IF Dispatch(cfg[ms[k]], cfg[ms[k]].regime, par) = "absent" THEN "RuntimeError" ELSE "ValueError"
    /\ UNCHANGED <<cfg, disk>>

\* ---------------------------------------------------------------- argument validation (C07)
\* a non-callable velocity gradient or position is refused before anything is integrated
UpdateBadArgs(m, which) ==
    /\ Tick /\ Log([a |-> "UpdateBadArgs", m |-> m, which |-> which]) /\ cfg[m] # NULL
    /\ err' = "ValueError" /\ UNCHANGED <<cfg, hist, nUpd, Fm, disk>>

\* ---------------------------------------------------------------- object life cycle (C08)
\* The client duplicates a mineral object (copy.deepcopy, or a pickle round trip - what a process pool does to
\* every argument).  The duplicate is a mineral "built identically": same configuration, same stored history, and
\* from then on the two evolve independently - whatever one of them does, the other is the solo mineral it was
\* (twins, non-interference: minerals share no hidden state, not even with their own copies).
CloneHows == {"deepcopy", "pickle"}
Clone(m, m2, how) ==
    /\ Tick /\ Log([a |-> "Clone", m |-> m, m2 |-> m2, how |-> how]) /\ cfg[m] # NULL /\ cfg[m2] = NULL
    /\ cfg'  = [cfg EXCEPT ![m2] = cfg[m]]
    /\ hist' = [hist EXCEPT ![m2] = hist[m]]
    /\ nUpd' = [nUpd EXCEPT ![m2] = nUpd[m]]
    /\ Fm'   = [Fm EXCEPT ![m2] = Fm[m]]
    /\ err' = "None" /\ UNCHANGED disk

\* ---------------------------------------------------------------- client faults (C07)
\* The callables the client hands over (velocity gradient, position, regime) may raise the client's own
\* exception at any evaluation: the very first one, part-way through the interval, or just before its end.
\* Wherever it happens the update fails and NOTHING moves: not the history ("a failed update leaves the
\* mineral's stored history untouched"), not the regime (the regime callable returned the mineral's current
\* regime until it raised), not the client's deformation gradient - and every later call behaves as if the
\* faulted one had never been made (the content terms of later snapshots do not mention it).
FaultCodes == {"first", "vgrad_mid", "vgrad_late", "pos_mid", "regime_mid"}
UpdateFaulted(m, fl, par, fc) ==
    /\ Tick /\ Log([a |-> "UpdateFaulted", m |-> m, fl |-> fl, par |-> par, fc |-> fc]) /\ cfg[m] # NULL
    /\ Dispatch(cfg[m], cfg[m].regime, par) \in OkClasses      \* integrable up to the fault
    /\ err' = "ClientFault" /\ UNCHANGED <<cfg, hist, nUpd, Fm, disk>>
\* the same in a bulk update, raised while the FIRST mineral of the list is being integrated: no mineral moves
UpdateAllFaulted(ms, fl, par, fc) ==
    /\ Tick /\ Log([a |-> "UpdateAllFaulted", ms |-> ms, fl |-> fl, par |-> par, fc |-> fc])
    /\ Len(ms) >= 1 /\ AllOk(ms, fl, par)
    \* (no SameF: the call fails whatever deformation gradient was handed in - in particular the minerals of the list
    \*  may have histories of different lengths, e.g. one of them was advanced alone before the other joined)
    /\ err' = "ClientFault" /\ UNCHANGED <<cfg, hist, nUpd, Fm, disk>>

\* ---------------------------------------------------------------- post-processing in the workflow (C10)
\* voigt_averages over a sequence of minerals: accepted iff all have the same grain count, the same
\* number of stored snapshots, and every mineral's phase is listed in the assemblage.  In particular a
\* bulk update that was refused part-way (UpdateAllPartial) leaves minerals with unequal snapshot
\* counts, and the average over them must be refused.
AllLive(ms) == \A k \in 1..Len(ms) : cfg[ms[k]] # NULL
VoigtAccepts(ms, par) ==
    /\ \A j, k \in 1..Len(ms) : cfg[ms[j]].n = cfg[ms[k]].n /\ Len(hist[ms[j]]) = Len(hist[ms[k]])
    /\ \A k \in 1..Len(ms) : InAsm(cfg[ms[k]].phase, par.asm) /\ cfg[ms[k]].phase \in {0, 1}
VoigtOk(ms, par) ==
    /\ Tick /\ Log([a |-> "VoigtOk", ms |-> ms, par |-> par, steps |-> Len(hist[ms[1]])])
    /\ Len(ms) >= 1 /\ AllLive(ms) /\ VoigtAccepts(ms, par)
    /\ err' = "None" /\ UNCHANGED <<cfg, hist, nUpd, Fm, disk>>
VoigtRejected(ms, par) ==
    /\ Tick /\ Log([a |-> "VoigtRejected", ms |-> ms, par |-> par])
    /\ Len(ms) >= 1 /\ AllLive(ms) /\ ~VoigtAccepts(ms, par)
    /\ err' = "ValueError" /\ UNCHANGED <<cfg, hist, nUpd, Fm, disk>>

\* ---------------------------------------------------------------- persistence (C17)
Rec(m) == [meta |-> <<cfg[m].phase, cfg[m].fabric, cfg[m].regime>>, n |-> cfg[m].n, hist |-> hist[m]]
Extend(d, k, v) == [x \in (DOMAIN d) \cup {k} |-> IF x = k THEN v ELSE d[x]]
Keys(f) == DOMAIN disk[f]
\* meta is stored as three unsigned bytes: only ordinals 0..255 survive.  Minerals with
\* negative ordinals cannot be saved faithfully; the model offers Save only for storable ones.
Storable(m) == cfg[m].phase \in 0..255 /\ cfg[m].fabric \in 0..255 /\ cfg[m].regime \in 0..255

SavePostfix(m, f, pf) ==
    /\ Tick /\ Log([a |-> "SavePostfix", m |-> m, f |-> f, pf |-> pf]) /\ cfg[m] # NULL /\ Storable(m)
    /\ pf \notin Keys(f)                      \* distinct postfixes (the property's quantifier)
    /\ disk' = [disk EXCEPT ![f] = Extend(@, pf, Rec(m))]
    /\ err' = "None" /\ UNCHANGED <<cfg, hist, nUpd, Fm>>

SaveWholeFile(m, f) ==                        \* named deviation: drops postfixed entries
    /\ Tick /\ Log([a |-> "SaveWholeFile", m |-> m, f |-> f]) /\ cfg[m] # NULL /\ Storable(m)
    /\ disk' = [disk EXCEPT ![f] = Extend(<<>>, "none", Rec(m))]
    /\ err' = "None" /\ UNCHANGED <<cfg, hist, nUpd, Fm>>

\* corrupt in-memory state (client tampered with the lists): refused, nothing written
SaveCorrupt(m, f, pf) ==
    /\ Tick /\ Log([a |-> "SaveCorrupt", m |-> m, f |-> f, pf |-> pf]) /\ cfg[m] # NULL
    /\ err' = "ValueError" /\ UNCHANGED <<cfg, hist, nUpd, Fm, disk>>

Load(m, f, k) ==                              \* m.load(f, postfix k)
    /\ Tick /\ Log([a |-> "Load", m |-> m, f |-> f, k |-> k]) /\ cfg[m] # NULL /\ k \in Keys(f)
    /\ cfg'  = [cfg EXCEPT ![m] = [phase |-> disk[f][k].meta[1], fabric |-> disk[f][k].meta[2],
                                   regime |-> disk[f][k].meta[3], n |-> disk[f][k].n]]
    /\ hist' = [hist EXCEPT ![m] = disk[f][k].hist]
    /\ err' = "None" /\ UNCHANGED <<nUpd, Fm, disk>>

FromFile(m, f, k) ==                          \* m = Mineral.from_file(f, postfix k)
    /\ Tick /\ Log([a |-> "FromFile", m |-> m, f |-> f, k |-> k]) /\ cfg[m] = NULL /\ k \in Keys(f)
    /\ cfg'  = [cfg EXCEPT ![m] = [phase |-> disk[f][k].meta[1], fabric |-> disk[f][k].meta[2],
                                   regime |-> disk[f][k].meta[3], n |-> disk[f][k].n]]
    /\ hist' = [hist EXCEPT ![m] = disk[f][k].hist]
    /\ err' = "None" /\ UNCHANGED <<nUpd, Fm, disk>>

LoadBadName(m) ==                             \* filename not ending in .npz
    /\ Tick /\ Log([a |-> "LoadBadName", m |-> m])
    /\ err' = "ValueError" /\ UNCHANGED <<cfg, hist, nUpd, Fm, disk>>

\* ---------------------------------------------------------------- next-state relation
UpdNext(m) ==
    \E fl \in Flows, par \in Pars, cb \in Callbacks \cup {NoCb} :
        \/ (cfg[m] # NULL /\
            UpdateOk(m, fl, par, cb,
                     NextOP(Last(hist[m]), cfg[m], EffRegime(m, cb), fl, par, Fm[m]),
                     NextFP(Last(hist[m]), cfg[m], EffRegime(m, cb), fl, par, Fm[m])))
        \/ UpdateRejected(m, fl, par, cb)
        \/ UpdatePhaseAbsent(m, fl, par, cb)

Pairs == {p \in Minerals \X Minerals : p[1] # p[2]}
UpdAllNext ==
    \E ms \in Pairs, fl \in Flows, par \in Pars :
        \/ UpdateAllOk(ms, fl, par, ModelNews(fl, par))
        \/ \E k \in 1..2 : UpdateAllPartial(ms, k, fl, par, ModelNews(fl, par))

DiskNext(m) ==
    \E f \in Files :
        \/ \E pf \in Postfixes : SavePostfix(m, f, pf) \/ SaveCorrupt(m, f, pf)
        \/ SaveWholeFile(m, f)
        \/ \E k \in Keys(f) : Load(m, f, k) \/ FromFile(m, f, k)

Next == \/ \E m \in Minerals :
             \/ \E c \in Configs, s \in Seeds, tx \in Textures : Create(m, c, s, tx, InitO(s, c.n, tx), InitF(c.n, tx))
             \/ UpdNext(m)
             \/ DiskNext(m)
             \/ LoadBadName(m)
        \/ UpdAllNext

Spec == Init /\ [][Next]_vars

\* ================================================================ properties
\* C01: histories only grow, one snapshot at a time - except by Load, which replaces the
\* history by a saved one (and only by a saved one).
IsSaved(h) == \E f \in Files : \E k \in Keys(f) : disk[f][k].hist = h
AppendOnly == [][\A m \in Minerals :
                   hist'[m] # hist[m] =>
                      \/ (IsPrefix(hist[m], hist'[m]) /\ Len(hist'[m]) = Len(hist[m]) + 1)
                      \/ (disk' = disk /\ IsSaved(hist'[m]))]_vars
\* C07: a failed call leaves every stored history (and the disk) untouched - except for the
\* named deviation UpdateAllPartial, where only minerals *before* the refused one move on.
FailureAtomic == [][err' # "None" =>
                     /\ disk' = disk
                     /\ \A m \in Minerals : hist'[m] = hist[m] \/
                           (IsPrefix(hist[m], hist'[m]) /\ Len(hist'[m]) = Len(hist[m]) + 1)]_vars
FailureAtomicSingle == [][(err' # "None" /\ \A m \in Minerals : nUpd'[m] = nUpd[m]) => hist' = hist]_vars
\* C01: every snapshot count equals successful updates + 1 unless the history was loaded
ShapeOK == \A m \in Minerals : cfg[m] # NULL => Len(hist[m]) >= 1
\* C07: null forcing - an accepted update under a zero velocity gradient or in a
\* viscosity-bound regime appends a snapshot whose orientation content is the previous one;
\* the volume content too unless the sliding floor can act on it.
NullForcing == [][\A m \in Minerals :
    (Len(Fm'[m]) = Len(Fm[m]) + 1 /\ (Last(Fm'[m]) = "zero" \/ NullReg(cfg'[m].regime))) =>
        /\ Last(hist'[m]).o = Last(hist[m]).o
        /\ Floorless(Last(hist[m]).f) => Last(hist'[m]).f = Last(hist[m]).f]_vars
\* C08: twins - identical construction and identical driving give identical terms, whatever
\* the other minerals did in between (terms depend on own state and inputs only).  Stated as
\* an invariant over pairs of live minerals with the same first snapshot and the same F path.
\* (It is checked in TwinsMC, where the per-mineral input sequence is recorded.)
\* C17: everything on disk is the exact record of some past mineral state
DiskWellFormed == \A f \in Files : \A k \in Keys(f) :
    /\ Len(disk[f][k].hist) >= 1
    /\ disk[f][k].n = disk[f][k].hist[1].f[2][1]
\* C17 round trip as an action property: after Load/FromFile the mineral equals the record
RoundTrip == [][\A m \in Minerals :
                  (disk' = disk /\ err' = "None" /\ hist'[m] # hist[m] /\ ~IsPrefix(hist[m], hist'[m])) =>
                     \E f \in Files : \E k \in Keys(f) :
                        /\ hist'[m] = disk[f][k].hist
                        /\ cfg'[m].n = disk[f][k].n
                        /\ <<cfg'[m].phase, cfg'[m].fabric, cfg'[m].regime>> = disk[f][k].meta]_vars
\* C17: postfix saves never disturb other entries of the archive
PostfixIsolation == [][\A f \in Files : \A k \in Keys(f) :
                          (k \in DOMAIN disk'[f] /\ Cardinality(DOMAIN disk'[f]) > Cardinality(Keys(f)))
                             => disk'[f][k] = disk[f][k]]_vars
\* C06: the F path of a mineral is exactly the sequence of flows of its successful updates
View == <<cfg, hist, nUpd, Fm, disk, err>>
\* behaviour emission for the replayer (simulation / enumeration configs only)
Project(st) == [cfg |-> st.cfg, hist |-> st.hist, nUpd |-> st.nUpd, Fm |-> st.Fm, err |-> st.err,
                disk |-> st.disk, act |-> IF st.log = <<>> THEN <<>> ELSE Last(st.log),
                pre |-> IF st.ops = 0 THEN st.log ELSE <<>>]   \* minerals built before the first call
EmitAtEnd == ops = MaxOps => (LET tr == Trace IN PrintT(<<"BEH", ToJson([i \in 1..Len(tr) |-> Project(tr[i])])>>))
FPathLen == \A m \in Minerals : Len(Fm[m]) = nUpd[m]
\* ================================================================ refinement to the proved abstraction
\* HistoryLaws.tla states the history / persistence laws over (hist, disk, err) alone and HistoryLawsProofs.tla
\* proves them with TLAPS for unbounded minerals, contents and history lengths.  RefinesLaws says that every step
\* of THIS machine is a step of that one (witnesses read off the post-state); TLC checks it over all reachable
\* states of the bounded configurations, which is what ties the unbounded proof to this specification.
AllKeys == Postfixes \cup {"none"}
AbsDisk == [f \in Files |-> [k \in DOMAIN disk[f] |-> disk[f][k].hist]]
Laws == INSTANCE HistoryLaws WITH KeySet <- AllKeys, Snap <- {}, hist <- hist, disk <- AbsDisk, err <- err
RefinesLaws ==
    [][\/ \E m \in Minerals : hist'[m] # <<>> /\ Laws!ACreate(m, hist'[m][1])
       \/ Laws!AAdvance({m \in Minerals : hist'[m] # hist[m]},
                        [m \in Minerals |-> IF hist'[m] = <<>> THEN <<>> ELSE Last(hist'[m])], err')
       \/ Laws!ARefuse(err') \/ Laws!ANoop
       \/ \E m \in Minerals, f \in Files, k \in AllKeys, keep \in BOOLEAN : Laws!ASave(m, f, k, keep)
       \/ \E m \in Minerals, f \in Files, k \in AllKeys : Laws!ALoad(m, f, k)]_<<hist, AbsDisk, err>>
=============================================================================
