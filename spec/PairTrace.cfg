INIT JudgeInit
NEXT JudgeNext
CONSTANTS
  K = 0
INVARIANT Verdict
CHECK_DEADLOCK FALSE
