INIT Init
NEXT Next
CONSTANTS
  NSet = {2, 4}
  D = 16
  Chis <- ChiDyadic
  Family = "dyadic"
  Strict = FALSE
INVARIANT LTypes
INVARIANT LSumOne
INVARIANT LSelect
INVARIANT LFloor
INVARIANT LRatio
INVARIANT LSBound
INVARIANT LMinBound
INVARIANT LOrder
INVARIANT LChiZero
INVARIANT LReapply
CHECK_DEADLOCK FALSE
