------------------------------- MODULE Flows -------------------------------
(***************************************************************************)
(* Layer A (C18): the analytic flows of pydrex.velocity, the axis-letter   *)
(* table of pydrex.geometry.to_indices2d and the strain increment of       *)
(* pydrex.utils, stated exactly.                                           *)
(*                                                                         *)
(* WHAT IS SPECIFIED                                                       *)
(*  1. AxisPairOf: the six ordered pairs of distinct letters from X, Y, Z  *)
(*     map to index pairs; every other pair of strings is a ValueError.    *)
(*  2. The three velocity fields as expression Terms (the tiny language of *)
(*     harness/evalterm.py) in the coordinates x1, x2, x3 and the run-time *)
(*     parameters rate | U, d | U and pi, transcribed from the DOCUMENTED  *)
(*     formulas (docstrings of simple_shear_2d, cell_2d, corner_2d), for   *)
(*     every axis assignment (h, v).                                       *)
(*     Simple shear has no formula in its docstring, only two readings:    *)
(*     the doctests pin u_dir = rate * x_plane (convention k = 1), while   *)
(*     "strain_rate = 1/2 x magnitude of the largest eigenvalue of the     *)
(*     velocity gradient" reads as u_dir = 2 * rate * x_plane (k = 2).     *)
(*     Both are emitted; the harness selects the one the velocity callable *)
(*     follows and the gradient must be the Jacobian of THAT field.        *)
(*  3. D(t, x): symbolic partial derivative of a Term (sum, product,       *)
(*     quotient, chain rule for sin, cos, sqrt, atan2, pow with a constant *)
(*     exponent).  Jac(u)[i][j] = D(u[i], x_j) is the specification of the *)
(*     velocity-gradient callable; TraceTerm(J) that of its trace.         *)
(*  4. StrainIncrement(dt, L) = |dt| * max |eig((L + L^T)/2)| on three     *)
(*     families whose principal strain rates are rational: diagonal,       *)
(*     rational-rotated diagonal (R diag R^T, R from integer quaternions), *)
(*     Pythagorean shear (2x2 block [[m+p, q], [q, m-p]], p^2+q^2 = r^2),  *)
(*     each plus an arbitrary skew part (which must not matter).           *)
(*                                                                         *)
(* WHAT TLC CHECKS (invariants over every enumerated case; ASSUMEs)        *)
(*  AxisTableLemma   exactly six accepted pairs, a bijection onto the      *)
(*                   ordered pairs of distinct indices.                    *)
(*  OffPlaneZero     Jacobian rows/columns of the unused axis are the      *)
(*                   literal zero term (all families, all axis pairs).     *)
(*  ShearExact       simple shear: J[dir][plane] = k * rate exactly on a   *)
(*                   rational rate set, every other entry and the trace    *)
(*                   are literally zero.                                   *)
(*  CellTraceFree    Stokes cell: the trace of the symbolic Jacobian       *)
(*                   vanishes as a polynomial identity in the atoms        *)
(*                   sin(.), cos(.) (evaluated exactly with arbitrary      *)
(*                   rational stand-ins for sin and cos, on a grid).       *)
(*  CornerExact      corner flow: D(u) is a rational function (the atan2   *)
(*                   disappears); on a rational grid it equals the         *)
(*                   gradient matrix printed in the docstring exactly and  *)
(*                   its trace is 0.                                       *)
(*  StrainSpectrum   for every strain case the claimed principal strain    *)
(*                   rates have exactly the characteristic polynomial of   *)
(*                   (L + L^T)/2 (e1, e2, e3 on the integer-scaled matrix) *)
(*                   and the expected increment is |dt| * max |lambda|.    *)
(*  Emit             prints every case for the replayer (harness/C18.py).  *)
(*                                                                         *)
(* One initial state per case, Next is a stutter (generator idiom).        *)
(***************************************************************************)
EXTENDS Mat3, Json

CONSTANT Tier,         \* "quick" | "thorough": sizes of the enumerated sets
         Plant          \* "none"; "cell-sign" | "spectrum" plant a transcription error so that the
                        \* harness can show that the lemmas are not vacuous (negative control)
VARIABLE c             \* the case record

Thorough == Tier = "thorough"

\* ------------------------------------------------------------------ 1. axis letters
Letters == <<"X", "Y", "Z">>
IsLetter(s) == \E i \in I3 : Letters[i] = s
LetterIdx(s) == CHOOSE i \in I3 : Letters[i] = s
AxisPairs == {p \in I3 \X I3 : p[1] # p[2]}
AxisOk(a, b) == IsLetter(a) /\ IsLetter(b) /\ a # b
AxisPairOf(a, b) == IF AxisOk(a, b) THEN <<LetterIdx(a), LetterIdx(b)>> ELSE <<>>   \* <<>> = ValueError
Alphabet == {"X", "Y", "Z", "W", "A", "", "XY", "0"}
AxisTableLemma ==
    /\ Cardinality({ab \in Alphabet \X Alphabet : AxisOk(ab[1], ab[2])}) = 6
    /\ \A p \in AxisPairs : \E ab \in Alphabet \X Alphabet : AxisPairOf(ab[1], ab[2]) = p
    /\ \A ab \in Alphabet \X Alphabet, cd \in Alphabet \X Alphabet :
          (AxisOk(ab[1], ab[2]) /\ AxisOk(cd[1], cd[2]) /\ AxisPairOf(ab[1], ab[2]) = AxisPairOf(cd[1], cd[2])) => ab = cd
ASSUME AxisTableLemma

\* ------------------------------------------------------------------ 2. terms
\* smart constructors keep derivatives small and make exact zeros literal
EQ(r) == <<"q", r>>
EInt(n) == <<"q", <<n, 1>>>>
EZero == EInt(0)
EOne == EInt(1)
EVar(s) == <<"var", s>>
EPar(s) == <<"param", s>>
IsQ(t) == t[1] = "q"
IsZero(t) == IF t[1] = "q" THEN t[2][1] = 0 ELSE FALSE
IsOne(t) == IF t[1] = "q" THEN t[2] = <<1, 1>> ELSE FALSE
ENeg(a) == IF IsQ(a) THEN EQ(QNeg(a[2])) ELSE IF a[1] = "neg" THEN a[2] ELSE <<"neg", a>>
EAdd(a, b) == IF IsZero(a) THEN b ELSE IF IsZero(b) THEN a
              ELSE IF IsQ(a) /\ IsQ(b) THEN EQ(QAdd(a[2], b[2])) ELSE <<"add", a, b>>
ESub(a, b) == IF IsZero(b) THEN a ELSE IF IsZero(a) THEN ENeg(b)
              ELSE IF IsQ(a) /\ IsQ(b) THEN EQ(QSub(a[2], b[2])) ELSE <<"sub", a, b>>
EMul(a, b) == IF IsZero(a) \/ IsZero(b) THEN EZero ELSE IF IsOne(a) THEN b ELSE IF IsOne(b) THEN a
              ELSE IF IsQ(a) /\ IsQ(b) THEN EQ(QMul(a[2], b[2])) ELSE <<"mul", a, b>>
EDiv(a, b) == IF IsZero(a) THEN EZero ELSE IF IsOne(b) THEN a ELSE <<"div", a, b>>
ESin(a) == <<"sin", a>>
ECos(a) == <<"cos", a>>
ESqrt(a) == <<"sqrt", a>>
EAtan2(y, x) == <<"atan2", y, x>>
EPowQ(a, r) == IF r = <<1, 1>> THEN a ELSE IF r = <<0, 1>> THEN EOne ELSE <<"pow", a, EQ(r)>>
EPow(a, n) == EPowQ(a, <<n, 1>>)
\* m * 10^e, the decimal-scaled numbers used for parameter and point classes
Dec(m, e) == IF e = 0 THEN EQ(m) ELSE <<"mul", EQ(m), <<"pow", EInt(10), EInt(e)>>>>

\* ------------------------------------------------------------------ 3. symbolic derivative
RECURSIVE D(_, _)
D(t, x) ==
    LET op == t[1] IN
    CASE op = "q" -> EZero
      [] op = "param" -> EZero
      [] op = "var" -> IF t[2] = x THEN EOne ELSE EZero
      [] op = "neg" -> ENeg(D(t[2], x))
      [] op = "add" -> EAdd(D(t[2], x), D(t[3], x))
      [] op = "sub" -> ESub(D(t[2], x), D(t[3], x))
      [] op = "mul" -> EAdd(EMul(D(t[2], x), t[3]), EMul(t[2], D(t[3], x)))
      [] op = "div" -> LET da == D(t[2], x) db == D(t[3], x) IN
                       IF IsZero(db) THEN EDiv(da, t[3])
                       ELSE EDiv(ESub(EMul(da, t[3]), EMul(t[2], db)), EMul(t[3], t[3]))
      [] op = "sin" -> EMul(ECos(t[2]), D(t[2], x))
      [] op = "cos" -> ENeg(EMul(ESin(t[2]), D(t[2], x)))
      [] op = "sqrt" -> EDiv(D(t[2], x), EMul(EInt(2), t))
      [] op = "atan2" -> \* atan2(y, w): (w dy - y dw) / (w^2 + y^2)
                       EDiv(ESub(EMul(t[3], D(t[2], x)), EMul(t[2], D(t[3], x))),
                            EAdd(EMul(t[3], t[3]), EMul(t[2], t[2])))
      [] op = "pow" -> \* constant rational exponent t[3] = <<"q", e>>
                       EMul(EMul(t[3], EPowQ(t[2], QSub(t[3][2], QOne))), D(t[2], x))

CoordName == <<"x1", "x2", "x3">>
X(i) == EVar(CoordName[i])
Jac(u) == [i \in I3 |-> [j \in I3 |-> D(u[i], CoordName[j])]]
TraceTerm(J) == EAdd(EAdd(J[1][1], J[2][2]), J[3][3])

\* ------------------------------------------------------------------ the documented fields
Pi == EPar("pi")
\* simple shear, convention k: u = k * rate * x_plane along `dir`
ShearField(k, dir, pl) == [i \in I3 |-> IF i = dir THEN EMul(EMul(EInt(k), EPar("rate")), X(pl)) ELSE EZero]
\* Stokes cell: u = U cos(pi x/d) sin(pi z/d) h^ - U sin(pi x/d) cos(pi z/d) v^
CellArg(i) == EDiv(EMul(Pi, X(i)), EPar("d"))
CellField(h, v) ==
    [i \in I3 |-> IF i = h THEN EMul(EMul(EPar("U"), ECos(CellArg(h))), ESin(CellArg(v)))
                  ELSE IF i = v THEN (IF Plant = "cell-sign" THEN EMul(EMul(EPar("U"), ESin(CellArg(h))), ECos(CellArg(v)))
                                      ELSE ENeg(EMul(EMul(EPar("U"), ESin(CellArg(h))), ECos(CellArg(v)))))
                  ELSE EZero]
\* corner flow: u = 2U/pi [atan(x / -z) + x z / (x^2 + z^2)] x^ + 2U/pi z^2 / (x^2 + z^2) z^,
\* the arctangent being the polar angle theta with x = r sin(theta), z = -r cos(theta)
CornerPref == EDiv(EMul(EInt(2), EPar("U")), Pi)
R2(h, v) == EAdd(EPow(X(h), 2), EPow(X(v), 2))
CornerField(h, v) ==
    [i \in I3 |-> IF i = h THEN EMul(CornerPref, EAdd(EAtan2(X(h), ENeg(X(v))), EDiv(EMul(X(h), X(v)), R2(h, v))))
                  ELSE IF i = v THEN EMul(CornerPref, EDiv(EPow(X(v), 2), R2(h, v)))
                  ELSE EZero]
\* the gradient matrix printed in the corner_2d docstring (rationals, for the exact lemma)
CornerDocGrad(h, v, xh, xv, U, pi) ==
    LET r2 == QAdd(QMul(xh, xh), QMul(xv, xv))
        pre == QDiv(QMul(Q(4), U), QMul(pi, QMul(r2, r2))) IN
    [i \in I3 |-> [j \in I3 |->
        IF i = h /\ j = h THEN QMul(pre, QNeg(QMul(QMul(xh, xh), xv)))
        ELSE IF i = h /\ j = v THEN QMul(pre, QMul(QMul(xh, xh), xh))
        ELSE IF i = v /\ j = h THEN QMul(pre, QNeg(QMul(xh, QMul(xv, xv))))
        ELSE IF i = v /\ j = v THEN QMul(pre, QMul(QMul(xh, xh), xv))
        ELSE QZ]]

Field(fam, k, h, v) == CASE fam = "simple_shear" -> ShearField(k, h, v)
                         [] fam = "cell" -> CellField(h, v)
                         [] fam = "corner" -> CornerField(h, v)

\* ------------------------------------------------------------------ exact evaluation of terms
\* sin and cos are evaluated as ARBITRARY rational functions OpSin(k, .), OpCos(k, .): an identity
\* that holds for them is a polynomial identity in the atoms sin(.), cos(.).
RECURSIVE QPowNat(_, _)
QPowNat(r, n) == IF n = 0 THEN QOne ELSE QMul(r, QPowNat(r, n - 1))
QPowInt(r, n) == IF n >= 0 THEN QPowNat(r, n) ELSE QInv(QPowNat(r, -n))
OpSin(k, r) == QDiv(QAdd(r, Q(k)), Q(k + 2))
OpCos(k, r) == QSub(Q(k), QMul(r, QHalf))
RECURSIVE EvQ(_, _, _)
EvQ(t, env, k) ==
    LET op == t[1] IN
    CASE op = "q" -> t[2]
      [] op = "param" -> env[t[2]]
      [] op = "var" -> env[t[2]]
      [] op = "neg" -> QNeg(EvQ(t[2], env, k))
      [] op = "add" -> QAdd(EvQ(t[2], env, k), EvQ(t[3], env, k))
      [] op = "sub" -> QSub(EvQ(t[2], env, k), EvQ(t[3], env, k))
      [] op = "mul" -> QMul(EvQ(t[2], env, k), EvQ(t[3], env, k))
      [] op = "div" -> QDiv(EvQ(t[2], env, k), EvQ(t[3], env, k))
      [] op = "sin" -> OpSin(k, EvQ(t[2], env, k))
      [] op = "cos" -> OpCos(k, EvQ(t[2], env, k))
      [] op = "pow" -> QPowInt(EvQ(t[2], env, k), t[3][2][1])      \* integer exponents only

\* ------------------------------------------------------------------ parameter and point classes
\* (emitted as terms; the harness evaluates them with evalterm and hands the floats to the code)
ShearEnvs == {[rate |-> Dec(<<1, 1>>, -4)], [rate |-> Dec(<<1, 1>>, -15)], [rate |-> Dec(<<-1, 1>>, -5)],
              [rate |-> Dec(<<1, 1>>, 0)], [rate |-> Dec(<<-5, 2>>, -10)], [rate |-> Dec(<<7, 3>>, 0)]}
CellEnvs == {[U |-> Dec(<<1, 1>>, 0), d |-> Dec(<<2, 1>>, 0)],
             [U |-> Dec(<<63, 10>>, -10), d |-> Dec(<<1, 1>>, 5)],
             [U |-> Dec(<<-1, 1>>, 0), d |-> Dec(<<2, 1>>, 0)],
             [U |-> Dec(<<1, 1>>, -10), d |-> Dec(<<10, 1>>, 0)],
             [U |-> Dec(<<5, 2>>, 0), d |-> Dec(<<3, 2>>, 0)]}
CornerEnvs == {[U |-> Dec(<<1, 1>>, 0)], [U |-> Dec(<<63, 10>>, -10)], [U |-> Dec(<<-2, 1>>, 0)],
               [U |-> Dec(<<1, 1>>, -10)]}
Envs(fam) == CASE fam = "simple_shear" -> ShearEnvs [] fam = "cell" -> CellEnvs [] fam = "corner" -> CornerEnvs

OtherCoords == {<<0, 1>>, <<7, 3>>, <<-5, 1>>}
GridQ == IF Thorough THEN {<<-3, 4>>, <<-1, 2>>, <<-1, 4>>, <<0, 1>>, <<1, 4>>, <<1, 3>>, <<1, 2>>, <<3, 4>>}
         ELSE {<<-3, 4>>, <<-1, 4>>, <<0, 1>>, <<1, 3>>, <<1, 2>>}
NearOne == {<<999, 1000>>, <<999999, 1000000>>, <<-999, 1000>>, <<-999999, 1000000>>}
EdgeOne == {<<1, 1>>, <<-1, 1>>}
Along == {<<-1, 2>>, <<0, 1>>, <<1, 3>>}
HalfD == EDiv(EPar("d"), EInt(2))
\* a point class: [cls, ph, pv, po] = class name, terms of the h, v and unused coordinates
Pt(cls, ph, pv, po) == [cls |-> cls, ph |-> ph, pv |-> pv, po |-> po]
PickOther(a, b) == IF (a[1] + b[1]) % 3 = 0 THEN <<0, 1>> ELSE IF (a[1] + b[1]) % 3 = 1 THEN <<7, 3>> ELSE <<-5, 1>>
CellPoints ==
    {Pt("interior", EMul(EQ(a), HalfD), EMul(EQ(b), HalfD), EQ(PickOther(a, b))) : a \in GridQ, b \in GridQ}
    \cup {Pt("near-edge", EMul(EQ(a), HalfD), EMul(EQ(b), HalfD), EZero) : a \in NearOne, b \in Along}
    \cup {Pt("near-edge", EMul(EQ(b), HalfD), EMul(EQ(a), HalfD), EZero) : a \in NearOne, b \in Along}
    \cup {Pt("near-edge", EMul(EQ(a), HalfD), EMul(EQ(b), HalfD), EZero) : a \in NearOne, b \in NearOne}
    \cup {Pt("on-edge", EMul(EQ(a), HalfD), EMul(EQ(b), HalfD), EZero) : a \in EdgeOne, b \in Along \cup EdgeOne}
    \cup {Pt("on-edge", EMul(EQ(b), HalfD), EMul(EQ(a), HalfD), EZero) : a \in EdgeOne, b \in Along}
\* corner flow: the wedge below the surface v <= 0 on both sides of the ridge axis h = 0
CornerH == IF Thorough THEN {<<-2, 1>>, <<-1, 2>>, <<0, 1>>, <<1, 3>>, <<1, 1>>, <<3, 1>>, <<1, 10>>}
           ELSE {<<-2, 1>>, <<0, 1>>, <<1, 3>>, <<1, 1>>, <<3, 1>>}
CornerV == {<<-3, 1>>, <<-1, 1>>, <<-1, 4>>}
CornerPoints ==
    {Pt("interior", Dec(a, e), Dec(b, e), EQ(PickOther(a, b))) : a \in CornerH, b \in CornerV, e \in {0, 5}}
    \cup {Pt("near-surface", Dec(a, 0), Dec(<<-1, 1>>, e), EZero) : a \in CornerH \ {<<0, 1>>}, e \in {-3, -6}}
    \cup {Pt("surface", Dec(a, 0), EZero, EZero) : a \in CornerH \ {<<0, 1>>}}
    \cup {Pt("near-corner", Dec(a, e), Dec(b, e), EZero) : a \in {<<1, 1>>, <<-1, 2>>, <<2, 1>>, <<0, 1>>},
                                                              b \in {<<-1, 1>>, <<-1, 3>>}, e \in {-6, -9}}
    \cup {Pt("origin", EZero, EZero, EZero)}          \* outside the domain: skipped and counted by the harness
ShearPoints ==
    {Pt("interior", Dec(a, e), Dec(b, e), EQ(PickOther(a, b))) : a \in GridQ, b \in {<<-1, 2>>, <<0, 1>>, <<2, 1>>}, e \in {0, 5}}
Points(fam) == CASE fam = "simple_shear" -> ShearPoints [] fam = "cell" -> CellPoints [] fam = "corner" -> CornerPoints

\* ------------------------------------------------------------------ 4. strain increments
Abs3Max(l) == QMax(QMax(QAbs(l[1]), QAbs(l[2])), QAbs(l[3]))
StrainIncrement(dt, lam) == QMul(QAbs(dt), Abs3Max(lam))
\* integer characteristic polynomial coefficients of a symmetric integer matrix
IE1(M) == M[1][1] + M[2][2] + M[3][3]
IE2(M) == M[1][1] * M[2][2] - M[1][2] * M[2][1] + M[1][1] * M[3][3] - M[1][3] * M[3][1] + M[2][2] * M[3][3] - M[2][3] * M[3][2]
IE3(M) == M[1][1] * (M[2][2] * M[3][3] - M[2][3] * M[3][2]) - M[1][2] * (M[2][1] * M[3][3] - M[2][3] * M[3][1])
          + M[1][3] * (M[2][1] * M[3][2] - M[2][2] * M[3][1])
\* lam (integers) is the spectrum, with multiplicity, of the integer matrix M
SpectrumInt(M, l) == /\ IE1(M) = l[1] + l[2] + l[3]
                     /\ IE2(M) = l[1] * l[2] + l[1] * l[3] + l[2] * l[3]
                     /\ IE3(M) = l[1] * l[2] * l[3]
SkewParts == << <<<<0, 0, 0>>, <<0, 0, 0>>, <<0, 0, 0>>>>, <<<<0, 2, -1>>, <<-2, 0, 3>>, <<1, -3, 0>>>> >>
Dts == << <<1, 1>>, <<-1, 3>>, <<5, 2>>, <<-7, 1>>, <<1, 100>> >>
ScaleClasses == << <<0, 0>>, <<-14, 13>>, <<3, -5>>, <<-15, 15>> >>      \* <<eL, eT>>: L * 10^eL, dt * 10^eT
Cyc(n, m) == (n % m) + 1
DiagMat(l) == [i \in I3 |-> [j \in I3 |-> IF i = j THEN Q(l[i]) ELSE QZ]]
StrainCase(fam, L, dt, lam, K, sc) ==
    [kind |-> "strain", fam |-> fam, L |-> MatToSeq(L), dt |-> dt, lam |-> lam, K |-> K,
     eL |-> ScaleClasses[sc][1], eT |-> ScaleClasses[sc][2],
     expected |-> StrainIncrement(dt, [i \in I3 |-> Q(lam[i])]), eExp |-> ScaleClasses[sc][1] + ScaleClasses[sc][2]]
DiagRange == -3..3
DiagCases == {StrainCase("diagonal", MAdd(DiagMat(<<a, b, cc>>), IntMat(SkewParts[w])),
                         Dts[Cyc((a + 3) * 49 + (b + 3) * 7 + (cc + 3), 5)], <<a, b, cc>>, 1,
                         Cyc((a + 3) + (b + 3) * 2 + (cc + 3) * 3 + w, 4)) :
                  a \in DiagRange, b \in DiagRange, cc \in DiagRange, w \in 1..2}
RotQuats == IF Thorough THEN Quats(2, {1, 2, 3, 4, 5, 6, 7, 9}) ELSE Quats(1, {1, 2, 3, 4})
RotSpectra == << <<1, -1, 0>>, <<2, -1, -1>>, <<3, 1, -2>>, <<1, 2, 3>>, <<-3, 0, 1>>, <<0, 0, 0>> >>
RotDiagCases == {LET R == QuatRot(qu) IN
                 StrainCase("rotated-diagonal",
                            MAdd(MEval(MMul(MMul(R, DiagMat(RotSpectra[s])), MT(R))), IntMat(SkewParts[Cyc(s, 2)])),
                            Dts[Cyc(s + qu[1] + qu[2] + 4, 5)], RotSpectra[s], QuatNorm2(qu) * QuatNorm2(qu),
                            Cyc(s + qu[3] + qu[4] + 4, 4)) :
                     qu \in RotQuats, s \in 1..6}
Triples == << <<3, 4, 5>>, <<4, 3, 5>>, <<5, 12, 13>>, <<-3, 4, 5>>, <<8, -15, 17>>, <<0, 1, 1>> >>
Planes == << <<1, 2, 3>>, <<1, 3, 2>>, <<2, 3, 1>> >>       \* <<i, j, k>>: block in (i, j), k the third axis
PythMat(t, pl, m, e, w, s) ==
    LET i == pl[1] j == pl[2] k == pl[3] IN
    [a \in I3 |-> [b \in I3 |->
        Q(IF a = i /\ b = i THEN m + t[1] ELSE IF a = j /\ b = j THEN m - t[1]
          ELSE IF a = i /\ b = j THEN t[2] + w ELSE IF a = j /\ b = i THEN t[2] - w
          ELSE IF a = k /\ b = k THEN e
          ELSE IF a = i /\ b = k THEN s ELSE IF a = k /\ b = i THEN -s ELSE 0)]]
PythCases == {StrainCase("pythagorean-shear", PythMat(Triples[t], Planes[pl], m, e, IF wi = 1 THEN 0 ELSE IF wi = 2 THEN Triples[t][2] ELSE -1, wi - 1),
                         Dts[Cyc(t + pl + wi + e + 20, 5)],
                         <<m + Triples[t][3], m - Triples[t][IF Plant = "spectrum" THEN 2 ELSE 3], e>>, 1, Cyc(t + pl + m + wi, 4)) :
                  t \in 1..6, pl \in 1..3, m \in {0, 2}, e \in {0, 2, -7, 20}, wi \in 1..3}
ZeroDtCases == {StrainCase("zero-dt", IntMat(<<<<1, 2, 3>>, <<4, 5, 6>>, <<7, 8, -6>>>>), <<0, 1>>, <<0, 0, 0>>, 0, 1)}

\* K * (L + L^T)/2 as an integer matrix (K = common denominator supplied by the family)
IntSym(L, K) == [i \in I3 |-> [j \in I3 |-> QMul(Q(K), QMul(QHalf, QAdd(L[i][j], L[j][i])))[1]]]
IntSymIsInt(L, K) == \A i \in I3, j \in I3 : QMul(Q(K), QMul(QHalf, QAdd(L[i][j], L[j][i])))[2] = 1

\* ------------------------------------------------------------------ driver: one initial state per case
JacCase(fam, k, p) ==
    LET u == Field(fam, k, p[1], p[2]) J == Jac(u) IN
    [kind |-> "jac", fam |-> fam, conv |-> k, h |-> p[1], v |-> p[2],
     axes |-> <<Letters[p[1]], Letters[p[2]]>>, idx |-> <<p[1] - 1, p[2] - 1>>,
     u |-> u, J |-> J, tr |-> TraceTerm(J)]
Fams == {"simple_shear", "cell", "corner"}
Convs(fam) == IF fam = "simple_shear" THEN {1, 2} ELSE {0}

Init ==
    \/ c \in {[kind |-> "axis", a |-> ab[1], b |-> ab[2], ok |-> AxisOk(ab[1], ab[2]),
               idx |-> IF AxisOk(ab[1], ab[2]) THEN <<AxisPairOf(ab[1], ab[2])[1] - 1, AxisPairOf(ab[1], ab[2])[2] - 1>> ELSE <<>>,
               exc |-> IF AxisOk(ab[1], ab[2]) THEN "None" ELSE "ValueError"] : ab \in Alphabet \X Alphabet}
    \/ c \in UNION {{JacCase(fam, k, p) : k \in Convs(fam), p \in AxisPairs} : fam \in Fams}
    \/ c \in UNION {{[kind |-> "env", fam |-> fam, env |-> e] : e \in Envs(fam)} : fam \in Fams}
    \/ c \in UNION {{[kind |-> "point", fam |-> fam, pt |-> p] : p \in Points(fam)} : fam \in Fams}
    \/ c \in DiagCases
    \/ c \in RotDiagCases
    \/ c \in PythCases
    \/ c \in ZeroDtCases
Next == UNCHANGED c

\* ------------------------------------------------------------------ lemmas
IsJac(fam) == c.kind = "jac" /\ c.fam = fam
OffPlaneZero == c.kind = "jac" =>
    \A i \in I3, j \in I3 : (i \notin {c.h, c.v} \/ j \notin {c.h, c.v}) => IsZero(c.J[i][j])

LemmaRates == {<<1, 1>>, <<-5, 2>>, <<1, 10000>>, <<7, 3>>}
ShearExact == IsJac("simple_shear") =>
    /\ IsZero(c.tr)
    /\ \A i \in I3, j \in I3 : (<<i, j>> # <<c.h, c.v>>) => IsZero(c.J[i][j])
    /\ \A r \in LemmaRates : EvQ(c.J[c.h][c.v], [s \in {"rate"} |-> r], 1) = QMul(Q(c.conv), r)

LemmaGrid == {<<-2, 1>>, <<-1, 1>>, <<-1, 2>>, <<0, 1>>, <<1, 2>>, <<1, 1>>, <<2, 1>>}
LemmaEnv(h, v, xh, xv, U, d, pi) ==
    [s \in {"x1", "x2", "x3", "U", "d", "pi"} |->
        IF s = CoordName[h] THEN xh ELSE IF s = CoordName[v] THEN xv
        ELSE IF s = "U" THEN U ELSE IF s = "d" THEN d ELSE IF s = "pi" THEN pi ELSE <<7, 3>>]
CellTraceFree == IsJac("cell") =>
    \A xh \in LemmaGrid, xv \in LemmaGrid, k \in {1, 3}, pr \in {<<<<1, 1>>, <<2, 1>>>>, <<<<-3, 2>>, <<5, 1>>>>} :
        EvQ(c.tr, LemmaEnv(c.h, c.v, xh, xv, pr[1], pr[2], <<3, 1>>), k) = QZ

CornerExact == IsJac("corner") =>
    \A xh \in LemmaGrid, xv \in LemmaGrid, U \in {<<1, 1>>, <<-3, 2>>}, pi \in {<<3, 1>>, <<22, 7>>} :
        (xh # QZ \/ xv # QZ) =>
            LET env == LemmaEnv(c.h, c.v, xh, xv, U, <<1, 1>>, pi)
                doc == CornerDocGrad(c.h, c.v, xh, xv, U, pi) IN
            /\ \A i \in I3, j \in I3 : EvQ(c.J[i][j], env, 1) = doc[i][j]
            /\ EvQ(c.tr, env, 1) = QZ

StrainSpectrum == c.kind = "strain" =>
    LET L == c.L IN
    IF c.K = 0 THEN c.expected = QZ          \* dt = 0: no claim about the spectrum needed
    ELSE /\ IntSymIsInt(L, c.K)
         /\ SpectrumInt(IntSym(L, c.K), [i \in I3 |-> c.K * c.lam[i]])
         /\ c.expected = QMul(QAbs(c.dt), Abs3Max([i \in I3 |-> Q(c.lam[i])]))
         /\ c.expected[1] >= 0

Emit == PrintT(<<"CASE", ToJson(c)>>)
=============================================================================
