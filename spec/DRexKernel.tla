----------------------------- MODULE DRexKernel -----------------------------
(***************************************************************************)
(* Layer A: the D-Rex grain kernel in exact arithmetic, transcribed from   *)
(* the published equations (Kaminski & Ribe 2001; Kaminski, Ribe & Browaeys*)
(* 2004; corrections of Fraters & Billen 2021) as documented in PyDRex's   *)
(* docstrings - not from the code's expressions.                           *)
(*                                                                         *)
(* Slip systems in documented order: 1 (010)[100], 2 (001)[100],           *)
(* 3 (010)[001], 4 (100)[001]; slip direction / plane normal are rows of   *)
(* the orientation matrix A (direction cosines).                           *)
(*                                                                         *)
(* The only irrational quantities are the relative slip rates              *)
(*   beta_s = r_s |r_s|^(n-1)  of the intermediate and minimum systems,    *)
(* kept as indeterminates (bi, bm); every tensor between them is a         *)
(* polynomial of degree <= 2 in (bi, bm) with rational coefficients        *)
(* (Poly2: 6-tuples over 1, bi, bm, bi^2, bi*bm, bm^2).  Identities TLC    *)
(* checks coefficient-wise therefore hold for ALL beta, hence for every    *)
(* stress exponent.                                                        *)
(***************************************************************************)
EXTENDS Mat3

S4 == 1..4
SlipDir == <<1, 1, 3, 3>>     \* row of A giving the slip direction l_s
SlipNrm == <<2, 3, 2, 1>>     \* row of A giving the slip-plane normal n_s

\* inverse normalised CRSS 1/tau_s (0 for an infinite CRSS), documented table
InvTau(fab) ==
    CASE fab = "A" -> <<Q(1), <<1, 2>>, <<1, 3>>, QZ>>
      [] fab = "B" -> <<<<1, 3>>, <<1, 2>>, Q(1), QZ>>
      [] fab = "C" -> <<<<1, 3>>, <<1, 2>>, QZ, Q(1)>>
      [] fab = "D" -> <<Q(1), Q(1), <<1, 3>>, QZ>>
      [] fab = "E" -> <<<<1, 3>>, Q(1), <<1, 2>>, QZ>>
      [] fab = "EN" -> <<QZ, QZ, QZ, Q(1)>>
OlivineFabs == {"A", "B", "C", "D", "E"}
Fabs == OlivineFabs \cup {"EN"}

\* ---------------------------------------------------------------- Poly2
P6 == 1..6
PZero == [k \in P6 |-> QZ]
PConst(c) == [k \in P6 |-> IF k = 1 THEN c ELSE QZ]
PVar(v) == [k \in P6 |-> IF k = v THEN QOne ELSE QZ]          \* v = 2: bi, v = 3: bm
PAdd(p, q) == [k \in P6 |-> QAdd(p[k], q[k])]
PSub(p, q) == [k \in P6 |-> QSub(p[k], q[k])]
PScale(c, p) == [k \in P6 |-> QMul(c, p[k])]
\* product of two LINEAR polynomials (entries 4..6 zero)
PMulLin(p, q) == <<QMul(p[1], q[1]),
                   QAdd(QMul(p[1], q[2]), QMul(p[2], q[1])),
                   QAdd(QMul(p[1], q[3]), QMul(p[3], q[1])),
                   QMul(p[2], q[2]),
                   QAdd(QMul(p[2], q[3]), QMul(p[3], q[2])),
                   QMul(p[3], q[3])>>
PSum3(f(_)) == PAdd(PAdd(f(1), f(2)), f(3))
PIsLinear(p) == p[4] = QZ /\ p[5] = QZ /\ p[6] = QZ

\* ---------------------------------------------------------------- the kernel
\* slip invariant I_s = l_s . D . n_s
SlipInv(D, A, s) == LET g(i) == LET h(j) == QMul(D[i][j], QMul(A[SlipDir[s]][i], A[SlipNrm[s]][j])) IN QSum3(h)
                    IN QSum3(g)

\* KernelI: the kernel with the slip invariants used for the ACTIVITY ORDER and the slip-rate ratios
\* given explicitly (Iact).  Kernel(fab, A, L) uses the grain's own invariants.  LimitKernel uses
\* the first-order coefficients of the invariants along a perturbation A(delta) = (1 + delta W) A0 of
\* a grain on which NO slip is resolved at delta = 0: for small delta the roles and ratios are
\* those of J (they are scale-free), the Schmid tensor is that of A0, and
\*   gamma0 = delta * (4 sum_s beta_s J_s) / R1 + O(delta^2),
\* because the least-squares numerator reduces to R2 = 2 G : D = 4 sum_s beta_s I_s.
KernelI(fab, A, L, Iact, limit) ==
  LET D == MEval(MSym(L))
      it == InvTau(fab)
      I == Iact
      act == TLCEval([s \in S4 |-> QMul(QAbs(I[s]), it[s])])          \* activity |I_s / tau_s|
      \* roles by increasing activity; documented tie-break: none (ties are flagged)
      Rank(s) == Cardinality({t \in S4 : QLt(act[t], act[s]) \/ (act[t] = act[s] /\ t < s)})
      Role(r) == CHOOSE s \in S4 : Rank(s) = r
      inac == Role(0)   mn == Role(1)   mid == Role(2)   mx == Role(3)
      unresolved == \A s \in S4 : I[s] = QZ              \* no slip invariant at all: early exit
      dead == act[mx] = QZ                               \* nothing resolved on a finite-CRSS system
      tie == \E s, t \in S4 : s # t /\ act[s] = act[t] /\ ~(act[s] = QZ /\ s # mx /\ t # mx)
      ol == fab \in OlivineFabs
      \* ratio of slip rates r_s = (tau_max / I_max) (I_s / tau_s)
      ratio(s) == IF dead \/ it[s] = QZ THEN QZ ELSE QDiv(QMul(I[s], it[s]), QMul(I[mx], it[mx]))
      enActive == ~ol /\ I[4] # QZ                       \* enstatite: (100)[001] only, active iff resolved
      beta == TLCEval([s \in S4 |->
                 IF ol THEN (IF dead THEN PZero
                             ELSE IF s = mx THEN PConst(QOne)
                             ELSE IF ratio(s) = QZ THEN PZero        \* r |r|^(n-1) = 0 exactly
                             ELSE IF s = mid THEN PVar(2)
                             ELSE IF s = mn THEN PVar(3) ELSE PZero)
                 ELSE (IF s = 4 /\ enActive THEN PConst(QOne) ELSE PZero)])
      \* Schmid tensor G = 2 sum_s beta_s l_s (x) n_s   (linear in 1, bi, bm)
      GG == TLCEval([x \in I3 \X I3 |->
              LET t(s) == PScale(QMul(Q(2), QMul(A[SlipDir[s]][x[1]], A[SlipNrm[s]][x[2]])), beta[s])
              IN TLCEval(PAdd(PAdd(t(1), t(2)), PAdd(t(3), t(4))))])
      G(i, j) == GG[<<i, j>>]
      nx(j) == (j % 3) + 1
      \* least-squares slip rate on the softest system gamma0 = R2 / R1 (Fraters & Billen S1)
      R2 == TLCEval(LET a(j) == LET k == nx(j) IN PScale(QNeg(QSub(L[j][k], L[k][j])), PSub(G(j, k), G(k, j)))
                        b(j) == LET c(l) == PScale(QMul(Q(2), L[j][l]), G(j, l)) IN PSum3(c)
                    IN PAdd(PSum3(a), PSum3(b)))
      R1 == TLCEval(LET a(j) == LET k == nx(j) d == PSub(G(j, k), G(k, j)) IN PScale(Q(-1), PMulLin(d, d))
                        b(j) == LET c(l) == PScale(Q(2), PMulLin(G(j, l), G(j, l))) IN PSum3(c)
                    IN PAdd(PSum3(a), PSum3(b)))
      \* spin vector omega_j = w0_j - w1_j * gamma0
      r(j) == nx(j)   s(j) == nx(nx(j))
      w0 == TLCEval([j \in I3 |-> QMul(QHalf, QSub(L[s(j)][r(j)], L[r(j)][s(j)]))])
      w1 == TLCEval([j \in I3 |-> TLCEval(PScale(QHalf, PSub(G(s(j), r(j)), G(r(j), s(j)))))])
      \* orientation rate  dA_pq = eps_qrs A_ps omega_r  =  U_pq - V_pq * gamma0
      U == TLCEval([x \in I3 \X I3 |->
             LET f(rr) == LET g(ss) == QMul(Q(Eps(x[2], rr, ss)), QMul(A[x[1]][ss], w0[rr])) IN QSum3(g) IN QSum3(f)])
      V == TLCEval([x \in I3 \X I3 |->
             LET f(rr) == LET g(ss) == PScale(QMul(Q(Eps(x[2], rr, ss)), A[x[1]][ss]), w1[rr]) IN PSum3(g) IN PSum3(f)])
      R2lin == TLCEval(LET t(s4) == PScale(QMul(Q(4), I[s4]), beta[s4]) IN PAdd(PAdd(t(1), t(2)), PAdd(t(3), t(4))))
  IN [ fab |-> fab, A |-> A, L |-> L, I |-> I, it |-> it, limit |-> limit, R2lin |-> R2lin,
       roles |-> <<inac, mn, mid, mx>>, tie |-> tie, unresolved |-> unresolved, dead |-> dead,
       rint |-> IF ol THEN ratio(mid) ELSE QZ, rmin |-> IF ol THEN ratio(mn) ELSE QZ,
       beta |-> beta, R1 |-> R1, R2 |-> R2, U |-> U, V |-> V ]

Invariants(A, L) == LET D == MEval(MSym(L)) IN TLCEval([s \in S4 |-> SlipInv(D, A, s)])
Kernel(fab, A, L) == KernelI(fab, A, L, Invariants(A, L), FALSE)
\* first-order coefficients J_s of the slip invariants along A(delta) = (1 + delta W) A0, W skew
DInvariants(A0, W, L) ==
    LET D == MEval(MSym(L))
        dA == MEval(MMul(W, A0))                       \* d/d delta of the rows of A
        J(s) == LET g(i) == LET h(j) == QMul(D[i][j], QAdd(QMul(dA[SlipDir[s]][i], A0[SlipNrm[s]][j]),
                                                            QMul(A0[SlipDir[s]][i], dA[SlipNrm[s]][j]))) IN QSum3(h)
                IN QSum3(g)
    IN TLCEval([s \in S4 |-> J(s)])
LimitKernel(fab, A0, W, L) == KernelI(fab, A0, L, DInvariants(A0, W, L), TRUE)
\* the identity behind R2lin: for every grain the least-squares numerator is R2 = 4 sum_s beta_s I_s
R2Identity(k) == k.limit \/ k.R2 = k.R2lin

\* ---------------------------------------------------------------- lemmas (per case)
\* A^T dA is skew for every gamma0 and every beta:  A^T U skew (rationals), A^T V skew (polys)
SkewU(A, U) == \A i, j \in I3 : LET f(k) == QAdd(QMul(A[k][i], U[<<k, j>>]), QMul(A[k][j], U[<<k, i>>])) IN QSum3(f) = QZ
SkewV(A, V) == \A i, j \in I3 : LET f(k) == PAdd(PScale(A[k][i], V[<<k, j>>]), PScale(A[k][j], V[<<k, i>>])) IN PSum3(f) = PZero
\* the Schmid tensors of systems 1..3 are mutually orthogonal in the least-squares form, so the
\* denominator is R1 = 4 (1 + bi^2 + bm^2) for olivine A, B, D, E with resolved slip, 4 for
\* active enstatite, 0 otherwise.  C-type olivine activates both (001)[100] and (100)[001],
\* whose Schmid tensors are transposes of each other: there R1 = 4 (1 + bi^2 + bm^2) +- 8 b2 b4
\* can vanish near an activity tie - the replayer uses the conditioning factor 1/R1 for it.
R1Closed(k) == LET ol == k.fab \in OlivineFabs
                   hasI == k.beta[k.roles[3]] = PVar(2)      \* intermediate system carries bi
                   hasM == k.beta[k.roles[2]] = PVar(3)      \* minimum system carries bm
               IN
    k.fab = "C" \/ k.R1 = IF ol /\ ~k.dead
                           THEN <<Q(4), QZ, QZ, IF hasI THEN Q(4) ELSE QZ, QZ, IF hasM THEN Q(4) ELSE QZ>>
                           ELSE IF ~ol /\ k.beta[4] # PZero THEN PConst(Q(4)) ELSE PZero
RolesArePermutation(k) == {k.roles[i] : i \in 1..4} = S4
KernelLemmas(k) == /\ IsRotation(k.A) /\ RolesArePermutation(k) /\ R2Identity(k)
                   /\ SkewU(k.A, k.U) /\ SkewV(k.A, k.V)
                   /\ R1Closed(k) /\ PIsLinear(k.R2)
                   /\ \A x \in I3 \X I3 : PIsLinear(k.V[x])

\* frame indifference (C04): rotating the external frame by a proper rotation Qm
\*   L -> Q L Q^T,  A -> A Q^T   gives the same roles, ratios, R1, R2 and dA -> dA Q^T
Covariant(k, k2, Qm) ==
    /\ k2.roles = k.roles /\ k2.rint = k.rint /\ k2.rmin = k.rmin /\ k2.tie = k.tie
    /\ k2.R1 = k.R1 /\ k2.R2 = k.R2 /\ k2.I = k.I
    /\ \A x \in I3 \X I3 :
         /\ k2.U[x] = (LET f(j) == QMul(k.U[<<x[1], j>>], Qm[x[2]][j]) IN QSum3(f))
         /\ k2.V[x] = (LET f(j) == PScale(Qm[x[2]][j], k.V[<<x[1], j>>]) IN PSum3(f))
\* crystal two-folds (C04): A -> S A with S = diag(+-1) of determinant +1.  sigma_s = S[l_s] S[n_s].
\* Activities and roles are unchanged, ratios pick up sigma_s sigma_max, and coefficient-wise
\*   R1' = R1;  X'_1 = sigma_max X_1, X'_bi = sigma_int X_bi, X'_bm = sigma_min X_bm  for X in {R2, S V}
\* so gamma0' = sigma_max gamma0 under the substituted betas and dA' = S dA exactly.
Sigma(Sd, s) == Sd[SlipDir[s]] * Sd[SlipNrm[s]]
TwoFold(k, k2, Sd) ==
    LET sx == Sigma(Sd, k.roles[4])  si == Sigma(Sd, k.roles[3])  sm == Sigma(Sd, k.roles[2])
        Tw(p) == <<QMul(Q(sx), p[1]), QMul(Q(si), p[2]), QMul(Q(sm), p[3]), p[4], p[5], p[6]>>
        ol == k.fab \in OlivineFabs
    IN /\ k2.roles = k.roles /\ k2.tie = k.tie /\ k2.R1 = k.R1
       /\ k2.rint = QMul(Q(si * sx), k.rint) /\ k2.rmin = QMul(Q(sm * sx), k.rmin)
       /\ \A x \in I3 \X I3 : k2.U[x] = QMul(Q(Sd[x[1]]), k.U[x])
       /\ ol => /\ k2.R2 = Tw(k.R2)
                /\ \A x \in I3 \X I3 : k2.V[x] = Tw(PScale(Q(Sd[x[1]]), k.V[x]))
       /\ ~ol => /\ k2.R2 = PScale(Q(Sigma(Sd, 4)), k.R2)
                 /\ \A x \in I3 \X I3 : k2.V[x] = PScale(Q(Sd[x[1]] * Sigma(Sd, 4)), k.V[x])
TwoFolds == {<<1, -1, -1>>, <<-1, 1, -1>>, <<-1, -1, 1>>}
SMat(Sd, A) == [i \in I3 |-> [j \in I3 |-> QMul(Q(Sd[i]), A[i][j])]]
=============================================================================
