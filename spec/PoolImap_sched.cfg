SPECIFICATION Spec
CONSTANTS
  MaxN = 4
  MaxW = 3
  Env = "imap"
  Record = TRUE
INVARIANT TypeOK
INVARIANT PrefixInOrder
INVARIANT ResultInOrder
INVARIANT EmitSchedule
CHECK_DEADLOCK FALSE
