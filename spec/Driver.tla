------------------------------- MODULE Driver -------------------------------
(***************************************************************************)
(* Extension beyond the listed properties (DESIGN section 12): the         *)
(* pathline-driven CPO run, i.e. the workflow of the library's examples    *)
(* and of its own 2-D cell / corner tests, as a state machine over the     *)
(* public calls it is composed of:                                         *)
(*                                                                         *)
(*   get_pathline(final, u, L, box, max_strain, regular_steps = s)         *)
(*        -> TraceOk(s)      timestamps t_0 < ... < t_s = 0, position(t)   *)
(*        -> TraceFail       named deviation: the stateful terminal event  *)
(*                           makes the root finder raise (known finding    *)
(*                           F9c of C18); nothing can be run               *)
(*   for k = 0 .. s-1:                                                     *)
(*     update_all(minerals, params, F, L, (t_k, t_k+1, position))          *)
(*        -> StepOk          every mineral gains exactly one snapshot, F   *)
(*                           is handed on to the next step                 *)
(*        -> StepRejected(j) the j-th mineral is refused (unsupported      *)
(*                           regime): minerals before it have moved on     *)
(*                           (UpdateAllPartial of PyDRex.tla), run failed  *)
(*   voigt_averages / misorientation_indices / resample_orientations over  *)
(*   the stored histories                                                  *)
(*        -> Diagnose        one value per stored snapshot, in order       *)
(*   Mineral.save(file, postfix) for every mineral; Mineral.from_file      *)
(*        -> SaveAll, Reload the reloaded minerals equal the live ones     *)
(*   a further pathline with the same (or the reloaded) minerals           *)
(*        -> Continue        histories keep accumulating                   *)
(*                                                                         *)
(* What TLC checks over all reachable states (Driver.cfg): the run can     *)
(* only be diagnosed after ALL steps were integrated, every mineral then   *)
(* holds exactly one snapshot per timestamp, every per-snapshot            *)
(* diagnostic has that length, and a failed run never reaches a later      *)
(* stage.  DriverTrace.tla binds the actions to events recorded from real  *)
(* runs and adds the numerical laws (budgets of C01 / C06 / C18).          *)
(***************************************************************************)
EXTENDS Integers, Sequences, FiniteSets, TLC, TLCExt, Json

CONSTANTS MineralSeq,    \* the minerals handed to update_all, in order
          StepChoices,   \* values offered for regular_steps
          MayReject,     \* whether some mineral may be in an unsupported regime
          MayTraceFail,  \* whether get_pathline may raise (named deviation F9c)
          MaxRuns        \* bound on the number of successive pathlines

VARIABLES stage,   \* "idle" | "traced" | "running" | "integrated" | "diagnosed" | "saved" | "reloaded" | "failed"
          nts,     \* number of timestamps of the pathline (regular_steps + 1)
          k,       \* steps integrated so far
          nsnap,   \* [mineral -> number of stored snapshots]
          diag,    \* lengths of the per-snapshot diagnostics (<<>> before Diagnose)
          base,    \* snapshots accumulated by earlier runs of the same minerals (restart from a checkpoint)
          runs,    \* number of pathlines traced so far
          err      \* outcome class of the last call
dvars == <<stage, nts, k, nsnap, diag, base, runs, err>>

MS2 == <<"ol", "en">>                 \* configurations (a cfg file cannot spell a sequence)
MS3 == <<"ol", "en", "ol2">>
Mins == {MineralSeq[i] : i \in 1..Len(MineralSeq)}

DInit == /\ stage = "idle" /\ nts = 0 /\ k = 0
         /\ nsnap = [m \in Mins |-> 1]          \* a new mineral holds its initial snapshot
         /\ diag = <<>> /\ base = 0 /\ runs = 0 /\ err = "None"

TraceOk(s) == /\ stage = "idle" /\ s >= 1
              /\ stage' = "traced" /\ nts' = s + 1 /\ k' = 0 /\ err' = "None" /\ runs' = runs + 1
              /\ UNCHANGED <<nsnap, diag, base>>
TraceFail == /\ MayTraceFail /\ stage = "idle" /\ stage' = "failed" /\ err' = "ValueError"
             /\ UNCHANGED <<nts, k, nsnap, diag, base, runs>>

StepOk == /\ stage \in {"traced", "running"} /\ k < nts - 1
          /\ k' = k + 1
          /\ nsnap' = [m \in Mins |-> nsnap[m] + 1]
          /\ stage' = IF k + 1 = nts - 1 THEN "integrated" ELSE "running"
          /\ err' = "None" /\ UNCHANGED <<nts, diag, base, runs>>

StepRejected(j) == /\ MayReject /\ stage \in {"traced", "running"} /\ k < nts - 1 /\ j \in 1..Len(MineralSeq)
                   /\ nsnap' = [m \in Mins |-> IF \E i \in 1..(j - 1) : MineralSeq[i] = m THEN nsnap[m] + 1 ELSE nsnap[m]]
                   /\ stage' = "failed" /\ err' = "ValueError" /\ UNCHANGED <<nts, k, diag, base, runs>>

Diagnose(nv, nm, nr) == /\ stage = "integrated"
                        /\ nv = base + nts /\ nm = base + nts /\ nr = base + nts     \* one value per stored snapshot
                        /\ diag' = <<nv, nm, nr>> /\ stage' = "diagnosed" /\ err' = "None"
                        /\ UNCHANGED <<nts, k, nsnap, base, runs>>
SaveAll == /\ stage = "diagnosed" /\ stage' = "saved" /\ err' = "None" /\ UNCHANGED <<nts, k, nsnap, diag, base, runs>>
Reload(equal) == /\ stage = "saved" /\ equal /\ stage' = "reloaded" /\ err' = "None" /\ UNCHANGED <<nts, k, nsnap, diag, base, runs>>
\* the same minerals (live, or reloaded from the checkpoint) are carried along a further pathline
Continue == /\ stage \in {"diagnosed", "reloaded"} /\ runs < MaxRuns
            /\ stage' = "idle" /\ base' = base + nts - 1 /\ nts' = 0 /\ k' = 0 /\ diag' = <<>> /\ err' = "None"
            /\ UNCHANGED <<nsnap, runs>>

DNext == \/ \E s \in StepChoices : TraceOk(s)
         \/ TraceFail \/ StepOk \/ \E j \in 1..Len(MineralSeq) : StepRejected(j)
         \/ Diagnose(base + nts, base + nts, base + nts) \/ SaveAll \/ Reload(TRUE) \/ Continue
DSpec == DInit /\ [][DNext]_dvars

\* ---------------------------------------------------------------- properties
Live == stage \notin {"idle", "failed"}
SnapshotPerStep   == Live => \A m \in Mins : nsnap[m] = base + k + 1
CompleteBeforeUse == stage \in {"integrated", "diagnosed", "saved", "reloaded"} => k = nts - 1 /\ \A m \in Mins : nsnap[m] = base + nts
DiagPerSnapshot   == stage \in {"diagnosed", "saved", "reloaded"} => diag = <<base + nts, base + nts, base + nts>>
FailedStays       == [][stage = "failed" => stage' = "failed"]_dvars
PartialOnFailure  == stage = "failed" => \A m \in Mins : nsnap[m] \in {base + k + 1, base + k + 2}
StepsBounded      == k <= nts - 1 \/ nts = 0
\* behaviour emission for the replayer (simulation configuration): the projected state sequence of a finished run
Finished == stage = "failed" \/ (stage \in {"diagnosed", "reloaded"} /\ runs = MaxRuns)
EmitAtEnd == Finished => (LET tr == Trace IN PrintT(<<"BEH", ToJson([i \in 1..Len(tr) |-> [stage |-> tr[i].stage, nts |-> tr[i].nts, k |-> tr[i].k, nsnap |-> tr[i].nsnap, base |-> tr[i].base, runs |-> tr[i].runs, err |-> tr[i].err]])>>))
=============================================================================
