---------------------------- MODULE DefGradTrace ----------------------------
(* Layer C for C06: judges recorded update calls against the closed-form solutions of       *)
(* DefGrad.tla.  The machine counts the successful updates N and accumulates the strain of   *)
(* the current trace itself; the budget 5e-3 + 1e-3 (N + 2 strain) is evaluated on those.    *)
(* Events (ndjson):                                                                          *)
(*   Start   tid                         a new mineral / a new starting F                    *)
(*   Update  ok, dstrain_e6, det_e9, [rel_e9]   one update_orientations / update_all call;   *)
(*           rel_e9 = |F_impl - F_exact| / |F_exact| when the call ends a closed-form step;   *)
(*           det_e9 = |det F_impl / det F_exact - 1|                                          *)
(*   Relate  rel_e9, n1, s1_e6, n2, s2_e6       a relation between two integrated runs        *)
(*           (split vs whole interval, right-equivariance): allowed = budget1 + budget2       *)
EXTENDS Integers, Sequences, TLC, Json, IOUtils
TraceLog == ndJsonDeserialize(IOEnv.TRACE_FILE)
VARIABLES l, nUpd, strain
vars == <<l, nUpd, strain>>
Budget(n, e6) == 5000000 + 1000000 * n + 2 * e6   \* 1e-9 units; e6 = strain * 1e6, so 2e-3 * strain = 2 * e6 * 1e-9
Ev == TraceLog[l]
Init == l = 1 /\ nUpd = 0 /\ strain = 0
Start == Ev.ev = "Start" /\ nUpd' = 0 /\ strain' = 0
Update == /\ Ev.ev = "Update"
          /\ nUpd' = IF Ev.ok THEN nUpd + 1 ELSE nUpd
          /\ strain' = IF Ev.ok THEN strain + Ev.dstrain_e6 ELSE strain
Relate == Ev.ev = "Relate" /\ UNCHANGED <<nUpd, strain>>
Next == l <= Len(TraceLog) /\ l' = l + 1 /\ (Start \/ Update \/ Relate)
Spec == Init /\ [][Next]_vars
Has(r, k) == k \in DOMAIN r
Clauses(e) ==
    IF e.ev = "Update" THEN
        (IF ~e.ok THEN {"update-raised"} ELSE {})
        \cup (IF e.ok /\ Has(e, "rel_e9") /\ e.rel_e9 > Budget(nUpd, strain) THEN {"F-differs-from-solution-of-dF/dt=L.F"} ELSE {})
        \cup (IF e.ok /\ e.det_e9 > Budget(nUpd, strain) THEN {"det-F-differs-from-exp-int-trace-L"} ELSE {})
    ELSE IF e.ev = "Relate" THEN
        (IF e.rel_e9 > Budget(e.n1, e.s1_e6) + Budget(e.n2, e.s2_e6) THEN {e.clause} ELSE {})
    ELSE {}
\* evaluated in the state AFTER the event was consumed (nUpd, strain include it)
Verdict == IF l > 1
           THEN LET e == TraceLog[l - 1] c == Clauses(e) IN
                (IF c = {} THEN TRUE ELSE PrintT(<<"REJECT", ToJson([id |-> e.id, clauses |-> c, n |-> nUpd, strain_e6 |-> strain])>>))
                /\ (IF l = Len(TraceLog) + 1 THEN PrintT(<<"DONE", Len(TraceLog)>>) ELSE TRUE)
           ELSE TRUE
=============================================================================
