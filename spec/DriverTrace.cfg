SPECIFICATION TSpec
CONSTANTS
  MineralSeq <- MS2
  StepChoices = {}
  MayReject = TRUE
  MaxRuns = 1000000
  MayTraceFail = TRUE
INVARIANT Report
CHECK_DEADLOCK FALSE
