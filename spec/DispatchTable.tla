---- MODULE DispatchTable ----
(* Stateless exhaustive decision table for C07: every regime ordinal -1..9, phase -1..2,  *)
(* fabric -1..6 (a) at the rate kernel and (b) at the Mineral level for every assemblage  *)
(* shape.  One initial state per entry; TLC checks the table's sanity lemmas and emits    *)
(* the expected outcome class of every entry for the replayer.                            *)
EXTENDS DispatchDef, TLC, Json
VARIABLE entry
Regimes == -1..9
Phases == -1..2
Fabrics == -1..6
Asms(p) == {<<0>>, <<1>>, <<0, 1>>, <<1, 0>>, <<p>>}
TInit == \/ entry \in {[level |-> "kernel", r |-> r, p |-> p, f |-> f,
                        cls |-> KernelDispatch(r, p, f)] : r \in Regimes, p \in Phases, f \in Fabrics}
         \/ entry \in UNION {{[level |-> "mineral", r |-> r, p |-> p, f |-> f, asm |-> a, cb |-> cb,
                        cls |-> Dispatch([phase |-> p, fabric |-> f, regime |-> r, n |-> 3],
                                         IF cb = NoCb THEN r ELSE cb,
                                         [M |-> 125, chi |-> 3, asm |-> a, phiOl |-> 7, x |-> <<5, 0>>])] :
                        r \in Regimes, f \in Fabrics, a \in Asms(p), cb \in {NoCb, 4, 5}} : p \in Phases}
TNext == UNCHANGED entry
TSpec == TInit /\ [][TNext]_entry
\* sanity lemmas of the table
RejectedNeverOk == entry.cls \in {"reject", "absent"} \/ entry.cls \in OkClasses
UnsupportedRejected == (entry.level = "kernel" /\ entry.r \in {2, 3, 5} \cup {-1, 8, 9}) => entry.cls = "reject"
TextureNeedsValidPair == (entry.cls = "texture") => ValidPair(entry.p, entry.f)
NullOnlyViscosityBounds == (entry.cls = "null") => (IF entry.level = "kernel" THEN entry.r \in {0, 7}
                              ELSE (IF entry.cb = NoCb THEN entry.r ELSE entry.cb) \in {0, 7})
Emit == PrintT(<<"ENTRY", ToJson(entry)>>)
====
