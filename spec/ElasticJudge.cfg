\* C12 law for the integer measures recorded from pydrex.elasticity_components (TRACE_FILE = ndjson)
INIT Init
NEXT Next
CONSTANTS
  Tier = "quick"
  Mode = "judge"
INVARIANT Verdict
CHECK_DEADLOCK FALSE
