INIT Init
NEXT Next
CHECK_DEADLOCK FALSE
CONSTANT NTric = 21
INVARIANT RoundTripTensor
INVARIANT RoundTripVector
INVARIANT UnitVectorRoundTrip
INVARIANT ContractionLemma
INVARIANT IsometryLemma
INVARIANT TricLemma
INVARIANT Emit
