SPECIFICATION Spec
CONSTANTS
  MaxN = 3
  MaxW = 3
  Env = "imap_unordered"
  Record = TRUE
INVARIANT TypeOK
INVARIANT EmitSchedule
CHECK_DEADLOCK FALSE
