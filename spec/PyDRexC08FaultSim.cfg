SPECIFICATION C08FaultSpec
CONSTANTS
  Minerals = {"a", "b", "c"}
  Files = {"f1"}
  Postfixes = {}
  Configs = {}
  Seeds = {}
  Textures = {}
  Flows = {"ss_xz", "gen3d", "pure_xy"}
  Pars <- C08Pars
  Callbacks = {}
  MaxUpd = 3
  MaxOps = 12
INVARIANT EmitAtEnd
CHECK_DEADLOCK FALSE
