------------------------------- MODULE Config -------------------------------
(***************************************************************************)
(* C19, second half: decision model of pydrex.io.parse_config, written     *)
(* from the documented file format (data/specs/spec.toml, steady_mesh.toml,*)
(* the field documentation of DefaultParams) - not from the parser.        *)
(*                                                                         *)
(* WHAT IS SPECIFIED.  A configuration file has a required [input] table   *)
(* carrying exactly one input mode                                         *)
(*    mesh     mesh + locations_final + timestep                           *)
(*    velgrad  velocity_gradient (built-in callable + arguments)           *)
(*             + locations_initial + timestep                              *)
(*    paths    paths (pre-computed pathline files, NPZ or SCSV);           *)
(*             timestep optional                                           *)
(* and optional keys: name; [input] strain_final; the six keys of [output] *)
(* (the table itself is optional); every field of the parameter record in  *)
(* [parameters] (the table itself is optional).  A file that supplies the  *)
(* required inputs parses; every omitted key that has a documented default *)
(* takes it (parameters: the value DefaultParams declares, fabric: A-type; *)
(* raw_output / diagnostics: all simulated phases - the documentation says *)
(* "all supported minerals" in one place and "all mineral phases" in the   *)
(* other, so anything between the simulated and the supported phases is    *)
(* accepted; log_level WARNING; no pathline output).  The parsed           *)
(* parameters always satisfy Post (equal-length phase and fraction lists,  *)
(* fractions summing to one, enumeration-typed phases and fabric, the      *)
(* members being the ones the file names), and a file whose effective      *)
(* lists (supplied or defaulted) cannot satisfy Post is rejected with the  *)
(* configuration error.                                                    *)
(*                                                                         *)
(* Every demand carries a force: "S" (stated by property C19: a mismatch   *)
(* is a violation) or "I" (implied by the documentation only - supplied    *)
(* values are preserved, missing required inputs are configuration errors, *)
(* output-phase faults: a mismatch is recorded as an observation).         *)
(* Phases / fabric given with an undocumented type (integers) may parse or *)
(* be rejected, but nothing else.                                          *)
(*                                                                         *)
(* WHAT TLC DOES.  One state per configuration:                            *)
(*   all subsets of the optional keys with at most MaxPresent keys present *)
(*   and all with at most MaxOmitted keys omitted, x empty-vs-absent table *)
(*   headers, x 4 input-mode variants (paths as NPZ and as SCSV), x 6      *)
(*   phase-list shapes (when a list key is present), x 5 fabric letters    *)
(*   (when the fabric key is present), x the values of raw_output and of   *)
(*   diagnostics (omitted / all simulated phases / each strict subset /    *)
(*   none, independently, so that e.g. a two-phase assemblage with         *)
(*   raw_output restricted and diagnostics omitted or naming the other     *)
(*   phase is visited); every single fault (13 on the                      *)
(*   constraints C19 names, on the full and on the minimal base; 8         *)
(*   documentation-level ones on the full base).  Two steps per            *)
(*   configuration ("seed" -> "done") so that the workers, not the         *)
(*   initial-state generator, evaluate and emit.                           *)
(* For each it evaluates the decision model and emits the expected outcome *)
(* class and the expected value (class) of every key.  Lemmas checked as   *)
(* invariants on every configuration:                                      *)
(*   OkImpliesPost (a configuration predicted to parse satisfies Post),    *)
(*   FaultsRejected (every listed fault is predicted ConfigError, or       *)
(*   either only for undocumented types), DefaultsParse (the documented    *)
(*   defaults are self-consistent), HeadersCoverKeys, DemandsTotal (every  *)
(*   omitted parameter key has a stated demand), ListKeysDecide,           *)
(*   ValidShapesParse (every listed phase-list shape is accepted),         *)
(*   SelectionsSimulated (supplied output lists name simulated phases).    *)
(* The parameter fields and their declared defaults come from the source   *)
(* (C19_DECL_FILE, see Params.tla); the pinned table is used otherwise.    *)
(***************************************************************************)
EXTENDS Rat, Json, IOUtils

CONSTANTS MaxPresent, MaxOmitted

PinnedDecl ==
  [root |-> "DefaultParams",
   order |-> <<"phase_assemblage", "phase_fractions", "stress_exponent", "deformation_exponent",
               "gbm_mobility", "gbs_threshold", "nucleation_efficiency", "number_of_grains",
               "initial_olivine_fabric", "disl_Peierls_stress", "disl_prefactors", "diff_prefactors",
               "disl_lowtemp_switch", "disl_activation_energy", "disl_activation_volume",
               "diff_activation_energies", "diff_activation_volumes", "disl_coefficients">>,
   default_shape |-> [asm |-> <<"olivine">>, fr |-> << <<1, 1>> >>],
   declared |->
     [DefaultParams |->
        [phase_assemblage |-> "(MineralPhase.olivine,)", phase_fractions |-> "(1.0,)",
         stress_exponent |-> "1.5", deformation_exponent |-> "3.5", gbm_mobility |-> "125",
         gbs_threshold |-> "0.3", nucleation_efficiency |-> "5.0", number_of_grains |-> "3500",
         initial_olivine_fabric |-> "MineralFabric.olivine_A", disl_Peierls_stress |-> "2.0",
         disl_prefactors |-> "(1e-16, 1e-17)", diff_prefactors |-> "(1e-10, 1e-10)",
         disl_lowtemp_switch |-> "0.7", disl_activation_energy |-> "460.0",
         disl_activation_volume |-> "12.0", diff_activation_energies |-> "(430.0, 330)",
         diff_activation_volumes |-> "(4.0, 4.0)",
         disl_coefficients |-> "(440000000.0, -52600.0, 0.0211, 0.000174, -41.8, 0.0421, -1.14e-05)"]]]

Decl == IF "C19_DECL_FILE" \in DOMAIN IOEnv THEN JsonDeserialize(IOEnv.C19_DECL_FILE) ELSE PinnedDecl
DeclDefault == Decl.declared[Decl.root]                \* field -> declared default (source text)

\* ---------------------------------------------------------------- documented vocabulary
PhaseNames == <<"olivine", "enstatite">>               \* ordinal = position - 1
PhaseSet == {PhaseNames[i] : i \in DOMAIN PhaseNames}
FabricLetters == {"A", "B", "C", "D", "E"}              \* olivine fabrics; enstatite_AB is not one
Modes == {"mesh", "velgrad", "paths_npz", "paths_scsv"}
PathModes == {"paths_npz", "paths_scsv"}
Required == [mesh |-> <<"mesh", "locations_final", "timestep">>,
             velgrad |-> <<"velocity_gradient", "locations_initial", "timestep">>,
             paths_npz |-> <<"paths">>, paths_scsv |-> <<"paths">>]

\* values written for supplied keys (all different from the defaults); tokens, rendered by the harness
Supplied ==
  [stress_exponent |-> <<"num", "1.7">>, deformation_exponent |-> <<"num", "3.2">>,
   gbm_mobility |-> <<"num", "10">>, gbs_threshold |-> <<"num", "0.4">>,
   nucleation_efficiency |-> <<"num", "4.5">>, number_of_grains |-> <<"num", "2000">>,
   disl_Peierls_stress |-> <<"num", "3.0">>, disl_prefactors |-> <<"nums", <<"2e-16", "3e-17">>>>,
   diff_prefactors |-> <<"nums", <<"2e-10", "3e-10">>>>, disl_lowtemp_switch |-> <<"num", "0.6">>,
   disl_activation_energy |-> <<"num", "443.0">>, disl_activation_volume |-> <<"num", "6.0">>,
   diff_activation_energies |-> <<"nums", <<"410.0", "320.0">>>>,
   diff_activation_volumes |-> <<"nums", <<"5.0", "3.0">>>>,
   disl_coefficients |-> <<"nums", <<"4.4e8", "-2.2e4", "3e-2", "1.3e-4", "-42.0", "4.2e-2", "-1.1e-5">>>>,
   name |-> <<"str", "c19-case">>, strain_final |-> <<"num", "2.5">>, timestep |-> <<"num", "1e9">>,
   directory |-> <<"str", "out">>, anisotropy |-> <<"strs", <<"Voigt", "moduli">>>>,
   paths |-> <<"strs", <<"pathline001.scsv">>>>, log_level |-> <<"str", "DEBUG">>]
\* a second value class at the edges of the documented ranges (values that published presets declare: no boundary
\* migration, no grain-boundary sliding, no nucleation; the smallest exponents and grain count).  Which class a
\* configuration uses is decided by the parity of its set of supplied keys, so every key occurs with both.
SuppliedEdge == [Supplied EXCEPT !.gbm_mobility = <<"num", "0">>, !.gbs_threshold = <<"num", "0.0">>,
                                 !.nucleation_efficiency = <<"num", "0.0">>, !.stress_exponent = <<"num", "1.0">>,
                                 !.deformation_exponent = <<"num", "1.0">>, !.number_of_grains = <<"num", "2">>,
                                 !.disl_lowtemp_switch = <<"num", "1.0">>]
ListFields == {"phase_assemblage", "phase_fractions"}
FabricField == "initial_olivine_fabric"
ShapeFields == ListFields \cup {FabricField}            \* supplied through the shape / fabric dimensions
DocDefault == [log_level |-> <<"str", "WARNING">>,
               anisotropy |-> <<"strs", <<"Voigt", "hexaxis", "moduli", "%decomp">>>>]

\* ---------------------------------------------------------------- keys (in a fixed order)
KnownParam(f) == f \in DOMAIN Supplied \/ f \in ShapeFields
ParSeq == [i \in DOMAIN Decl.order |-> <<"parameters", Decl.order[i]>>]
OutSeq == << <<"output", "directory">>, <<"output", "raw_output">>, <<"output", "diagnostics">>,
             <<"output", "anisotropy">>, <<"output", "paths">>, <<"output", "log_level">> >>
InSeq(m) == IF m \in PathModes THEN << <<"input", "strain_final">>, <<"input", "timestep">> >>
            ELSE << <<"input", "strain_final">> >>
KeySeq(m) == << <<"top", "name">> >> \o InSeq(m) \o OutSeq \o ParSeq
SeqSet(s) == {s[i] : i \in DOMAIN s}
\* keys that can be supplied (a field added to the record later has no supplied value here: always omitted)
OptKeys(m) == {k \in SeqSet(KeySeq(m)) : k[1] # "parameters" \/ KnownParam(k[2])}
K(t, k) == <<t, k>>
AsmKey == K("parameters", "phase_assemblage")
FrKey == K("parameters", "phase_fractions")
FabKey == K("parameters", FabricField)
Tables == {"parameters", "output"}

\* ---------------------------------------------------------------- phase-list shapes, fabrics, faults
S(n) == <<"s", n>>
I(n) == <<"i", n>>
F(x) == <<"f", x>>
Shapes == << [asm |-> <<S("olivine")>>, fr |-> << <<1, 1>> >>],
             [asm |-> <<S("enstatite")>>, fr |-> << <<1, 1>> >>],
             [asm |-> <<S("olivine"), S("enstatite")>>, fr |-> << <<7, 10>>, <<3, 10>> >>],
             [asm |-> <<S("enstatite"), S("olivine")>>, fr |-> << <<1, 4>>, <<3, 4>> >>],
             [asm |-> <<S("olivine"), S("enstatite")>>, fr |-> << <<1, 2>>, <<1, 2>> >>],
             [asm |-> <<I(0), I(1)>>, fr |-> << <<7, 10>>, <<3, 10>> >>] >>
DefaultAsm == [i \in DOMAIN Decl.default_shape.asm |-> S(Decl.default_shape.asm[i])]
DefaultFr == [i \in DOMAIN Decl.default_shape.fr |-> <<Decl.default_shape.fr[i][1], Decl.default_shape.fr[i][2]>>]
DefaultFab == S("A")                                     \* "A-type by default"
OlEn == <<S("olivine"), S("enstatite")>>
Fr73 == << <<7, 10>>, <<3, 10>> >>
NoEdit == "none"
\* single faults: each changes one thing of an otherwise valid configuration
Faults ==
  << [name |-> "len-assemblage-longer", sets |-> {AsmKey, FrKey}, asm |-> OlEn, fr |-> << <<1, 1>> >>, fab |-> DefaultFab, edit |-> NoEdit],
     [name |-> "len-fractions-longer", sets |-> {AsmKey, FrKey}, asm |-> <<S("olivine")>>, fr |-> << <<1, 2>>, <<1, 2>> >>, fab |-> DefaultFab, edit |-> NoEdit],
     [name |-> "len-assemblage-alone", sets |-> {AsmKey}, asm |-> OlEn, fr |-> DefaultFr, fab |-> DefaultFab, edit |-> NoEdit],
     [name |-> "sum-below-one", sets |-> {AsmKey, FrKey}, asm |-> OlEn, fr |-> << <<7, 10>>, <<1, 5>> >>, fab |-> DefaultFab, edit |-> NoEdit],
     [name |-> "sum-above-one", sets |-> {AsmKey, FrKey}, asm |-> OlEn, fr |-> << <<3, 5>>, <<3, 5>> >>, fab |-> DefaultFab, edit |-> NoEdit],
     [name |-> "sum-single-half", sets |-> {AsmKey, FrKey}, asm |-> <<S("olivine")>>, fr |-> << <<1, 2>> >>, fab |-> DefaultFab, edit |-> NoEdit],
     [name |-> "phase-unknown-name", sets |-> {AsmKey, FrKey}, asm |-> <<S("olivine"), S("quartz")>>, fr |-> Fr73, fab |-> DefaultFab, edit |-> NoEdit],
     [name |-> "phase-integer-out-of-range", sets |-> {AsmKey, FrKey}, asm |-> <<I(0), I(7)>>, fr |-> Fr73, fab |-> DefaultFab, edit |-> NoEdit],
     [name |-> "phase-integer-negative", sets |-> {AsmKey, FrKey}, asm |-> <<I(0 - 1)>>, fr |-> << <<1, 1>> >>, fab |-> DefaultFab, edit |-> NoEdit],
     [name |-> "phase-float", sets |-> {AsmKey, FrKey}, asm |-> <<S("olivine"), F("1.5")>>, fr |-> Fr73, fab |-> DefaultFab, edit |-> NoEdit],
     [name |-> "fabric-unknown-letter", sets |-> {FabKey}, asm |-> DefaultAsm, fr |-> DefaultFr, fab |-> S("Z"), edit |-> NoEdit],
     [name |-> "fabric-empty", sets |-> {FabKey}, asm |-> DefaultAsm, fr |-> DefaultFr, fab |-> S(""), edit |-> NoEdit],
     [name |-> "fabric-integer", sets |-> {FabKey}, asm |-> DefaultAsm, fr |-> DefaultFr, fab |-> I(1), edit |-> NoEdit],
     \* faults outside the constraints C19 names (documentation only: force "I")
     [name |-> "no-input-table", sets |-> {}, asm |-> DefaultAsm, fr |-> DefaultFr, fab |-> DefaultFab, edit |-> "no-input-table"],
     [name |-> "no-timestep", sets |-> {}, asm |-> DefaultAsm, fr |-> DefaultFr, fab |-> DefaultFab, edit |-> "no-timestep"],
     [name |-> "no-locations", sets |-> {}, asm |-> DefaultAsm, fr |-> DefaultFr, fab |-> DefaultFab, edit |-> "no-locations"],
     [name |-> "timestep-string", sets |-> {}, asm |-> DefaultAsm, fr |-> DefaultFr, fab |-> DefaultFab, edit |-> "timestep-string"],
     [name |-> "strain-final-string", sets |-> {K("input", "strain_final")}, asm |-> DefaultAsm, fr |-> DefaultFr, fab |-> DefaultFab, edit |-> "strain-final-string"],
     [name |-> "raw-output-unknown-phase", sets |-> {K("output", "raw_output")}, asm |-> DefaultAsm, fr |-> DefaultFr, fab |-> DefaultFab, edit |-> "raw-output-unknown-phase"],
     [name |-> "diagnostics-phase-not-simulated", sets |-> {AsmKey, FrKey, K("output", "diagnostics")}, asm |-> <<S("olivine")>>, fr |-> << <<1, 1>> >>, fab |-> DefaultFab, edit |-> "diagnostics-phase-not-simulated"],
     [name |-> "coefficients-too-few", sets |-> {K("parameters", "disl_coefficients")}, asm |-> DefaultAsm, fr |-> DefaultFr, fab |-> DefaultFab, edit |-> "coefficients-too-few"] >>
\* what a structural edit writes instead of the regular value: <<table, key, token>>; <<"absent">> removes the key
Override(m, edit) ==
  CASE edit = "no-timestep" -> << <<"input", "timestep", <<"absent">>>> >>
    [] edit = "no-locations" -> << <<"input", Required[m][2], <<"absent">>>> >>
    [] edit = "timestep-string" -> << <<"input", "timestep", <<"str", "fast">>>> >>
    [] edit = "strain-final-string" -> << <<"input", "strain_final", <<"str", "large">>>> >>
    [] edit = "raw-output-unknown-phase" -> << <<"output", "raw_output", <<"strs", <<"quartz">>>>>> >>
    [] edit = "diagnostics-phase-not-simulated" -> << <<"output", "diagnostics", <<"strs", <<"enstatite">>>>>> >>
    [] edit = "coefficients-too-few" -> << <<"parameters", "disl_coefficients", <<"nums", <<"4.4e8", "-2.2e4", "3e-2">>>>>> >>
    [] OTHER -> <<>>
EditApplies(m, edit) == edit \in {"no-timestep", "no-locations"} => m \notin PathModes

\* a phase token names a member / is an in-range ordinal (undocumented type) / names nothing
PhaseClass(t) == IF t[1] = "s" THEN (IF t[2] \in PhaseSet THEN "member" ELSE "invalid")
                 ELSE IF t[1] = "i" THEN (IF t[2] \in 0..(Len(PhaseNames) - 1) THEN "ordinal" ELSE "invalid")
                 ELSE "invalid"
PhaseName(t) == IF PhaseClass(t) = "invalid" THEN "?" ELSE IF t[1] = "s" THEN t[2] ELSE PhaseNames[t[2] + 1]
\* names of the phases an assemblage simulates (tokens that name nothing are dropped)
ValidNames(asm) == LET v == SelectSeq(asm, LAMBDA t : PhaseClass(t) # "invalid")
                   IN [i \in DOMAIN v |-> PhaseName(v[i])]
\* every selection (sub-sequence) of a list of names: all of them, each strict subset, none
RECURSIVE PickFrom(_, _, _)
PickFrom(names, ix, k) == IF k > Len(names) THEN <<>>
                          ELSE (IF k \in ix THEN <<names[k]>> ELSE <<>>) \o PickFrom(names, ix, k + 1)
Selections(names) == {PickFrom(names, ix, 1) : ix \in SUBSET DOMAIN names}
FirstOf(names) == IF names = <<>> THEN <<>> ELSE <<names[1]>>
RawKey == K("output", "raw_output")
DiagKey == K("output", "diagnostics")

\* ---------------------------------------------------------------- configurations
VARIABLES cfg, phase      \* phase: "seed" (initial, cheap) -> "done" (judged and emitted by a worker)
\* cfg = [mode, present (set of keys), hdr (set of tables written, possibly empty), asm, fr, fab,
\*        raw, diag (values used when the corresponding key is present), fault (name or "none"), edit]

SmallSets(U, n) == UNION {kSubset(k, U) : k \in 0..n}
PresentSets(m) == SmallSets(OptKeys(m), MaxPresent) \cup {OptKeys(m) \ o : o \in SmallSets(OptKeys(m), MaxOmitted)}
HasTable(P, t) == \E k \in P : k[1] = t
HdrChoices(P) == {h \in SUBSET Tables : \A t \in Tables : HasTable(P, t) => t \in h}
ShapeChoices(P) == IF AsmKey \in P \/ FrKey \in P THEN DOMAIN Shapes ELSE {1}
FabChoices(P) == IF FabKey \in P THEN {S(x) : x \in FabricLetters} ELSE {DefaultFab}

\* values of the two output phase lists: omitted (key absent) / all simulated phases / each strict
\* subset of them / none - independently for raw_output and diagnostics (crossed with the A-type
\* fabric only; the other letters get raw_output = all, diagnostics = the first phase)
SimulatedOf(P, asm) == ValidNames(IF AsmKey \in P THEN asm ELSE DefaultAsm)
RawChoices(P, names, fb) == IF RawKey \in P /\ fb = DefaultFab THEN Selections(names) ELSE {names}
DiagChoices(P, names, fb) == IF DiagKey \in P /\ fb = DefaultFab THEN Selections(names) ELSE {FirstOf(names)}

ValidInit == \E m \in Modes : \E P \in PresentSets(m) : \E h \in HdrChoices(P) :
               \E s \in ShapeChoices(P) : \E fb \in FabChoices(P) :
                 \E ro \in RawChoices(P, SimulatedOf(P, Shapes[s].asm), fb) :
                   \E dg \in DiagChoices(P, SimulatedOf(P, Shapes[s].asm), fb) :
                     cfg = [mode |-> m, present |-> P, hdr |-> h, asm |-> Shapes[s].asm, fr |-> Shapes[s].fr,
                            fab |-> fb, raw |-> ro, diag |-> dg, fault |-> "none", edit |-> NoEdit]
FaultInit == \E m \in Modes : \E i \in DOMAIN Faults : \E base \in {"full", "minimal"} :
               /\ EditApplies(m, Faults[i].edit)
               /\ (base = "minimal" => Faults[i].edit = NoEdit)   \* documentation-level faults: full base only
               /\ LET P == IF base = "full" THEN OptKeys(m) ELSE Faults[i].sets
                  IN cfg = [mode |-> m, present |-> P, hdr |-> {t \in Tables : HasTable(P, t)},
                            asm |-> Faults[i].asm, fr |-> Faults[i].fr, fab |-> Faults[i].fab,
                            raw |-> SimulatedOf(P, Faults[i].asm), diag |-> FirstOf(SimulatedOf(P, Faults[i].asm)),
                            fault |-> Faults[i].name, edit |-> Faults[i].edit]
CInit == phase = "seed" /\ (ValidInit \/ FaultInit)
CNext == phase = "seed" /\ phase' = "done" /\ UNCHANGED cfg
Done == phase = "done"

\* ---------------------------------------------------------------- decision model
Has(k) == k \in cfg.present
EffAsm == IF Has(AsmKey) THEN cfg.asm ELSE DefaultAsm
EffFr == IF Has(FrKey) THEN cfg.fr ELSE DefaultFr
EffFab == IF Has(FabKey) THEN cfg.fab ELSE DefaultFab

FabClass(t) == IF t[1] = "s" THEN (IF t[2] \in FabricLetters THEN "member" ELSE "invalid")
               ELSE IF t[1] = "i" THEN "ordinal" ELSE "invalid"

Broken == (IF Len(EffAsm) # Len(EffFr) THEN {"len-equal"} ELSE {})
          \cup (IF QSumSeq(EffFr) # QOne THEN {"sum-one"} ELSE {})
          \cup (IF \E i \in DOMAIN EffAsm : PhaseClass(EffAsm[i]) = "invalid" THEN {"phases-enum"} ELSE {})
          \cup (IF FabClass(EffFab) = "invalid" THEN {"fabric-enum"} ELSE {})
Undocumented == (\E i \in DOMAIN EffAsm : PhaseClass(EffAsm[i]) = "ordinal") \/ FabClass(EffFab) = "ordinal"

Outcome == IF cfg.edit # NoEdit THEN {"ConfigError"}
           ELSE IF Broken # {} THEN {"ConfigError"}
           ELSE IF Undocumented THEN {"ok", "ConfigError"}
           ELSE {"ok"}
OutcomeForce == IF cfg.edit # NoEdit THEN "I" ELSE "S"
Post == <<"len-equal", "sum-one", "phases-enum", "fabric-enum">>

SimulatedNames == [i \in DOMAIN EffAsm |-> PhaseName(EffAsm[i])]
\* values written for the two output phase lists when their keys are present
RawSupplied == <<"strs", cfg.raw>>
DiagSupplied == <<"strs", cfg.diag>>

Sup == IF Cardinality(cfg.present) % 2 = 0 THEN SuppliedEdge ELSE Supplied
NoDemand == <<"-", "-", "-">>
Demand(k) ==
  LET t == k[1]  f == k[2]  has == Has(k) IN
  IF t = "parameters" THEN
    IF f = "phase_assemblage" THEN <<"S", "phases-exact", SimulatedNames>>
    ELSE IF f = "phase_fractions" THEN (IF has THEN <<"I", "fractions", cfg.fr>> ELSE <<"S", "py", DeclDefault[f]>>)
    ELSE IF f = FabricField THEN (IF FabClass(EffFab) = "member" THEN <<"S", "fabric", EffFab[2]>> ELSE <<"S", "fabric-any", "-">>)
    ELSE IF has THEN <<"I", "token", Sup[f]>> ELSE <<"S", "py", DeclDefault[f]>>
  ELSE IF t = "output" THEN
    IF f = "raw_output" THEN (IF has THEN <<"I", "phases-exact", RawSupplied[2]>> ELSE <<"S", "phases-between", <<SimulatedNames, PhaseNames>>>>)
    ELSE IF f = "diagnostics" THEN (IF has THEN <<"I", "phases-exact", DiagSupplied[2]>> ELSE <<"S", "phases-between", <<SimulatedNames, PhaseNames>>>>)
    ELSE IF f = "log_level" THEN (IF has THEN <<"I", "token", Sup[f]>> ELSE <<"S", "token", DocDefault[f]>>)
    ELSE IF f = "anisotropy" THEN (IF has THEN <<"I", "token", Sup[f]>> ELSE <<"I", "token", DocDefault[f]>>)
    ELSE IF f = "paths" THEN (IF ~has THEN <<"S", "noneish", "-">>
                              ELSE IF cfg.mode \in PathModes THEN NoDemand   \* "not sensible with pathline inputs"
                              ELSE <<"I", "token", Sup[f]>>)
    ELSE IF f = "directory" THEN (IF has THEN <<"I", "path", Sup[f][2]>> ELSE NoDemand)
    ELSE NoDemand
  ELSE IF has THEN <<"I", "token", Sup[f]>> ELSE NoDemand       \* name, strain_final, timestep: no documented default
Keys == KeySeq(cfg.mode)
Demands == [i \in DOMAIN Keys |-> Demand(Keys[i])]
ReqDemands == LET r == Required[cfg.mode] IN
  [i \in DOMAIN r |-> IF r[i] = "timestep" THEN <<r[i], "I", "token", Sup.timestep>>
                      ELSE IF r[i] = "paths" THEN <<r[i], "I", "length", 1>>
                      ELSE IF r[i] \in {"locations_final", "locations_initial"} THEN <<r[i], "I", "columns", "-">>
                      ELSE <<r[i], "I", "not-none", "-">>]

Case == [mode |-> cfg.mode,
         keys |-> [i \in DOMAIN Keys |-> IF Has(Keys[i]) THEN 1 ELSE 0],
         hdr |-> [parameters |-> "parameters" \in cfg.hdr, output |-> "output" \in cfg.hdr],
         asm |-> cfg.asm, fr |-> cfg.fr, fab |-> cfg.fab,
         raw |-> RawSupplied, diag |-> DiagSupplied,
         fault |-> cfg.fault, edit |-> cfg.edit, over |-> Override(cfg.mode, cfg.edit), sup |-> Sup,
         outcome |-> Outcome, oforce |-> OutcomeForce, broken |-> Broken,
         exp |-> IF "ok" \in Outcome THEN Demands ELSE <<>>,
         req |-> IF "ok" \in Outcome THEN ReqDemands ELSE <<>>, post |-> Post]

\* ---------------------------------------------------------------- lemmas
OkImpliesPost == (Done /\ "ok" \in Outcome) =>
                   /\ Len(EffAsm) = Len(EffFr) /\ QSumSeq(EffFr) = QOne
                   /\ \A i \in DOMAIN EffAsm : PhaseName(EffAsm[i]) \in PhaseSet
                   /\ FabClass(EffFab) # "invalid"
FaultsRejected == (Done /\ cfg.fault # "none") => /\ "ConfigError" \in Outcome
                                                  /\ ("ok" \in Outcome => Undocumented)
DefaultsParse == (Done /\ cfg.fault = "none" /\ ~HasTable(cfg.present, "parameters")) => Outcome = {"ok"}
HeadersCoverKeys == Done => (\A k \in cfg.present : k[1] \in Tables => k[1] \in cfg.hdr)
DemandsTotal == Done => (/\ Len(Demands) = Len(Keys)
                         /\ \A i \in DOMAIN Keys : (Keys[i][1] = "parameters" /\ ~Has(Keys[i])) => Demands[i][1] = "S")
ListKeysDecide == (Done /\ cfg.fault = "none" /\ ~Has(AsmKey) /\ ~Has(FrKey)) => Broken = {}
SelectionsSimulated == (Done /\ cfg.fault = "none") =>
                         /\ \A i \in DOMAIN cfg.raw : \E j \in DOMAIN SimulatedNames : cfg.raw[i] = SimulatedNames[j]
                         /\ \A i \in DOMAIN cfg.diag : \E j \in DOMAIN SimulatedNames : cfg.diag[i] = SimulatedNames[j]
ValidShapesParse == (Done /\ cfg.fault = "none" /\ Has(AsmKey) /\ Has(FrKey)) => "ok" \in Outcome

Emit == Done => PrintT(<<"CASE", ToJson(Case)>>)
\* printed once: the key order per mode, the supplied tokens and the required keys, for the harness
Table == [keys |-> [m \in Modes |-> KeySeq(m)], supplied |-> Supplied, required |-> Required,
          phases |-> PhaseNames, fabrics |-> FabricLetters]
ASSUME PrintT(<<"TABLE", ToJson(Table)>>)
=============================================================================
