INIT GInit
NEXT GNext
CONSTANTS
  Sizes = {2, 20, 80, 200, 2000}
  Reps = 3
  FullUpTo = 500
  ReducedUpTo = 500
INVARIANT EmitScenario
CHECK_DEADLOCK FALSE
