\* C10 law for the floating-point measures recorded from pydrex.voigt_averages (TRACE_FILE = ndjson)
INIT Init
NEXT Next
CONSTANTS
  Tier = "quick"
  Mode = "measures"
INVARIANT MeasureVerdict
CHECK_DEADLOCK FALSE
