------------------------------ MODULE Tensors ------------------------------
(***************************************************************************)
(* Layer A, property C11: the representations of an elastic tensor and the *)
(* maps between them, written from the DOCUMENTED MATHEMATICS, not from    *)
(* the expressions in pydrex/tensors.py.                                   *)
(*                                                                         *)
(* What is specified                                                       *)
(*  1. Voigt index map (11,22,33,23,13,12) -> (1..6) as a table; the 4th-  *)
(*     order tensor C_pqrs = M[Voigt(p,q)][Voigt(r,s)] of a symmetric 6x6  *)
(*     matrix and the way back.                                            *)
(*  2. Browaeys & Chevrot (2004) 21-component vector: table of positions   *)
(*     and weights 1, sqrt2, 2, 2 sqrt2 (in the field Q(sqrt2)), inverse.  *)
(*  3. Tensor transformation law T'_ijkl = R_ia R_jb R_kc R_ld T_abcd as   *)
(*     the direct 4-fold sum (TDirect); the staged Mat3!TRotate is proved  *)
(*     equal and used where speed matters.                                 *)
(*  4. The two independent contractions d_ij = C_ijkk, v_ij = C_ikjk, and  *)
(*     their Voigt forms (B&C eq. 3.4, 3.5).                               *)
(*  5. B&C projector matrices onto the monoclinic (13), orthorhombic (9),  *)
(*     tetragonal (6) and hexagonal (5) subspaces; the point groups C2z,   *)
(*     D2, D4 and an infinite-order rotation about x3 that DEFINE those    *)
(*     subspaces.                                                          *)
(*  6. Invariants of a second-order tensor and the elementary symmetric    *)
(*     functions of its eigenvalues.                                       *)
(*  7. Polar decomposition by its defining equations: right M = R.U, left  *)
(*     M = V.R, R orthogonal, U / V symmetric positive semi-definite.      *)
(*                                                                         *)
(* This module has no variables.  The drivers TensorsIdx, TensorsBasis,    *)
(* TensorsRot, TensorsProj, TensorsMat enumerate finite domains (all index *)
(* tuples, a basis of the 21-dimensional space of elastic tensors, exact   *)
(* rotations, integer matrices), let TLC prove the lemmas named there as   *)
(* invariants, and emit every case with its exact expected value as JSON.  *)
(* All maps in 1-5 are linear, so a lemma proved on a basis holds for all  *)
(* tensors.  TensorsMeasures judges float-sampled deviation measures.      *)
(***************************************************************************)
EXTENDS Mat3, QSqrt2

I21 == 1..21
I81 == 1..81
I66 == I6 \X I6
Min2(a, b) == IF a <= b THEN a ELSE b
Max2(a, b) == IF a <= b THEN b ELSE a

\* ------------------------------------------------------------------ 1. Voigt index map
Voigt(p, q) == CASE p = 1 /\ q = 1 -> 1
                 [] p = 2 /\ q = 2 -> 2
                 [] p = 3 /\ q = 3 -> 3
                 [] {p, q} = {2, 3} -> 4
                 [] {p, q} = {1, 3} -> 5
                 [] {p, q} = {1, 2} -> 6
Mult(i) == IF i <= 3 THEN 1 ELSE 2          \* number of pairs (p,q) with Voigt(p,q) = i
\* all tensor index tuples represented by the matrix entry (i, j)
Pre(i, j) == {x \in I4 : Voigt(x[1], x[2]) = i /\ Voigt(x[3], x[4]) = j}
\* 4th-order tensor of a 6x6 matrix
C4(M) == TLCEval([x \in I4 |-> M[Voigt(x[1], x[2])][Voigt(x[3], x[4])]])
HasElasticSym(T) == \A x \in I4 : /\ T[x] = T[<<x[2], x[1], x[3], x[4]>>]     \* minor
                                  /\ T[x] = T[<<x[1], x[2], x[4], x[3]>>]     \* minor
                                  /\ T[x] = T[<<x[3], x[4], x[1], x[2]>>]     \* major
\* 6x6 matrix of a tensor with elastic symmetries (any representative of Pre(i,j) will do:
\* lemma AllRepresentativesAgree in TensorsIdx)
Mat6(T) == ToVoigt(T)
IsSym6(M) == \A i \in I6, j \in I6 : M[i][j] = M[j][i]
\* zero-based C order position <-> index tuple (layout of a (3,3,3,3) array), for JSON
Idx4(n) == <<((n - 1) \div 27) + 1, (((n - 1) \div 9) % 3) + 1, (((n - 1) \div 3) % 3) + 1, ((n - 1) % 3) + 1>>
TensorSeq(T) == [n \in I81 |-> T[Idx4(n)]]
TZero == TLCEval([x \in I4 |-> QZ])
\* a deterministic family of full (triclinic) symmetric integer matrices: every one of the 21
\* independent entries is non-zero (values -3..-1, 1..3); members 1..21 are linearly independent
TricVals == <<-3, -2, -1, 1, 2, 3>>
Tric(n) == [i \in I6 |-> [j \in I6 |->
             LET lo == Min2(i, j) hi == Max2(i, j)
                 h == (n * n * 5 + n * (7 * lo + 13 * hi) + 11 * lo * hi + 3 * lo + 17 * hi * hi + n * lo * hi) % 211
             IN Q(TricVals[(h % 6) + 1])]]

\* stiffness matrices of the crystal symmetry classes IN THEIR STANDARD FRAMES (integers; upper triangle by rows).
\* Their couplings are tied by the class relations (trigonal C14 = -C24 = C56, tetragonal C16 = -C26, ...), so that
\* both contractions C_ijkk and C_ikjk are DIAGONAL although the tensor is not orthotropic: members 1-4 have couplings
\* that cancel in every contraction.  Member 10 is a triclinic matrix with the same cancellation built in by hand.
SymUp6(u) == [i \in I6 |-> [j \in I6 |-> LET p == Min2(i, j) r == Max2(i, j) IN Q(u[p][r - p + 1])]]
ClassMats == <<
  SymUp6(<< <<87, 7, 12, -18, 0, 0>>, <<87, 12, 18, 0, 0>>, <<106, 0, 0, 0>>, <<58, 0, 0>>, <<58, -18>>, <<40>> >>),      \* trigonal, 6 constants (quartz)
  SymUp6(<< <<87, 7, 12, -18, 5, 0>>, <<87, 12, 18, -5, 0>>, <<106, 0, 0, 0>>, <<58, 0, -5>>, <<58, -18>>, <<40>> >>),    \* trigonal, 7 constants
  SymUp6(<< <<20, 5, 4, 0, 0, 3>>, <<20, 4, 0, 0, -3>>, <<15, 0, 0, 0>>, <<6, 0, 0>>, <<6, 0>>, <<7>> >>),                \* tetragonal, 7 constants
  SymUp6(<< <<9, 2, 3, 1, -2, 4>>, <<8, 1, -1, 2, -4>>, <<7, 0, 0, 0>>, <<3, 0, 2>>, <<4, 1>>, <<5>> >>),                \* triclinic, cancelling couplings
  SymUp6(<< <<20, 5, 4, 0, 0, 0>>, <<20, 4, 0, 0, 0>>, <<15, 0, 0, 0>>, <<6, 0, 0>>, <<6, 0>>, <<7>> >>),                 \* tetragonal, 6 constants
  SymUp6(<< <<20, 6, 4, 0, 0, 0>>, <<20, 4, 0, 0, 0>>, <<15, 0, 0, 0>>, <<6, 0, 0>>, <<6, 0>>, <<7>> >>),                 \* hexagonal (C66 = (C11 - C12) / 2)
  SymUp6(<< <<17, 6, 6, 0, 0, 0>>, <<17, 6, 0, 0, 0>>, <<17, 0, 0, 0>>, <<4, 0, 0>>, <<4, 0>>, <<4>> >>),                 \* cubic
  SymUp6(<< <<32, 7, 7, 0, 0, 0>>, <<20, 8, 0, 0, 0>>, <<23, 0, 0, 0>>, <<6, 0, 0>>, <<8, 0>>, <<8>> >>),                 \* orthorhombic
  SymUp6(<< <<32, 7, 7, 0, 0, 2>>, <<20, 8, 0, 0, -1>>, <<23, 0, 0, 3>>, <<6, 1, 0>>, <<8, 0>>, <<8>> >>),                \* monoclinic (unique axis z)
  SymUp6(<< <<12, 4, 4, 0, 0, 0>>, <<12, 4, 0, 0, 0>>, <<12, 0, 0, 0>>, <<4, 0, 0>>, <<4, 0>>, <<4>> >>) >>               \* isotropic
NClass == Len(ClassMats)
\* the triclinic family and, from 101 on, the symmetry-class family
TricX(n) == IF n > 100 THEN ClassMats[n - 100] ELSE Tric(n)

\* ------------------------------------------------------------------ 2. the 21-vector (B&C 2004, eq. 2.2)
\* X = (C11, C22, C33, r2 C23, r2 C13, r2 C12, 2C44, 2C55, 2C66, 2C14, 2C25, 2C36,
\*      2C34, 2C15, 2C26, 2C24, 2C35, 2C16, 2r2 C56, 2r2 C46, 2r2 C45),  r2 = sqrt 2
VecPos == << <<1, 1>>, <<2, 2>>, <<3, 3>>, <<2, 3>>, <<1, 3>>, <<1, 2>>,
             <<4, 4>>, <<5, 5>>, <<6, 6>>, <<1, 4>>, <<2, 5>>, <<3, 6>>,
             <<3, 4>>, <<1, 5>>, <<2, 6>>, <<2, 4>>, <<3, 5>>, <<1, 6>>,
             <<5, 6>>, <<4, 6>>, <<4, 5>> >>
VecWeight(k) == IF k <= 3 THEN SOne ELSE IF k <= 6 THEN Root2
                ELSE IF k <= 18 THEN SQ(Q(2)) ELSE SScale(Q(2), Root2)
VecWeightInv(k) == IF k <= 3 THEN SOne ELSE IF k <= 6 THEN InvRoot2
                   ELSE IF k <= 18 THEN SQ(QHalf) ELSE SScale(QHalf, InvRoot2)
VecIndex(i, j) == CHOOSE k \in I21 : VecPos[k] = <<Min2(i, j), Max2(i, j)>>
Mat2Vec(M) == TLCEval([k \in I21 |-> SMul(VecWeight(k), SQ(M[VecPos[k][1]][VecPos[k][2]]))])
\* inverse: symmetric 6x6 matrix over Q(sqrt2)
Vec2SMat(x) == TLCEval([i \in I6 |-> TLCEval([j \in I6 |-> LET k == VecIndex(i, j) IN SMul(VecWeightInv(k), x[k])])])
SMatIsRational(S) == \A i \in I6, j \in I6 : S[i][j][2] = QZ
SMatRational(S) == [i \in I6 |-> [j \in I6 |-> S[i][j][1]]]
Vec2Mat(x) == SMatRational(Vec2SMat(x))           \* meaningful when SMatIsRational(Vec2SMat(x))
Unit21(k) == [j \in I21 |-> IF j = k THEN SOne ELSE SZ]
XDot(x, y) == FoldSet(LAMBDA k, acc : SAdd(SMul(x[k], y[k]), acc), SZ, I21)
XSub(x, y) == TLCEval([k \in I21 |-> SSub(x[k], y[k])])
XNorm2(x) == XDot(x, x)
\* the same norms for entries with a known common denominator D: scale to integers first, so that the
\* running sums never cross-multiply large denominators (32-bit integers)
XNorm2D(x, D) == SScale(<<1, D * D>>, XNorm2(TLCEval([k \in I21 |-> SScale(Q(D), x[k])])))
TFrob2D(T, D) == QMul(<<1, D * D>>, TFrob2(TScale(Q(D), T)))

\* ------------------------------------------------------------------ 3. transformation law
Support(T) == {y \in I4 : T[y] # QZ}
TDirect(T, R) == LET S == Support(T) IN
    TLCEval([x \in I4 |-> FoldSet(LAMBDA y, acc :
                 QAdd(QMul(QMul(QMul(R[x[1]][y[1]], R[x[2]][y[2]]), QMul(R[x[3]][y[3]], R[x[4]][y[4]])), T[y]), acc),
                 QZ, S)])
CanonQuat(q) == LET nz == {i \in 1..4 : q[i] # 0} IN nz # {} /\ q[CHOOSE i \in nz : \A j \in nz : i <= j] > 0
CanonQuats(B, Norms) == {q \in Quats(B, Norms) : CanonQuat(q)}
SmallQuats == CanonQuats(1, {1, 2, 3, 4})         \* 40 quaternions <-> Mat3!SmallRots
OctaQuats == CanonQuats(1, {1, 2, 4})             \* 24 quaternions <-> Mat3!OctaRots

\* ------------------------------------------------------------------ 4. contractions
Dilat(T) == [i \in I3 |-> [j \in I3 |-> LET f(k) == T[<<i, j, k, k>>] IN QSum3(f)]]        \* d_ij = C_ijkk
Deviat(T) == [i \in I3 |-> [j \in I3 |-> LET f(k) == T[<<i, k, j, k>>] IN QSum3(f)]]       \* v_ij = C_ikjk
\* Voigt forms, B&C (2004) eq. 3.4 and 3.5
DilatVoigt(M) == [i \in I3 |-> [j \in I3 |-> LET f(k) == M[k][Voigt(i, j)] IN QSum3(f)]]
DeviatVoigt(M) == LET a3(x, y, z) == QAdd(QAdd(x, y), z)
                      v11 == a3(M[1][1], M[5][5], M[6][6])
                      v22 == a3(M[2][2], M[4][4], M[6][6])
                      v33 == a3(M[3][3], M[4][4], M[5][5])
                      v12 == a3(M[1][6], M[2][6], M[4][5])
                      v13 == a3(M[1][5], M[3][5], M[4][6])
                      v23 == a3(M[2][4], M[3][4], M[5][6])
                  IN << <<v11, v12, v13>>, <<v12, v22, v23>>, <<v13, v23, v33>> >>

\* ------------------------------------------------------------------ 5. symmetry-class projectors
Classes == <<"mono", "ortho", "tetr", "hex">>         \* nested: each contains the next
ClassDim(c) == CASE c = "mono" -> 13 [] c = "ortho" -> 9 [] c = "tetr" -> 6 [] c = "hex" -> 5
SHalf == SQ(QHalf)
MonoZero == {10, 11, 13, 14, 16, 17, 19, 20}
PMono(k, j) == IF k = j /\ k \notin MonoZero THEN SOne ELSE SZ
POrtho(k, j) == IF k = j /\ k <= 9 THEN SOne ELSE SZ
PTetr(k, j) == CASE k \in {1, 2} /\ j \in {1, 2} -> SHalf
                 [] k = 3 /\ j = 3 -> SOne
                 [] k \in {4, 5} /\ j \in {4, 5} -> SHalf
                 [] k = 6 /\ j = 6 -> SOne
                 [] k \in {7, 8} /\ j \in {7, 8} -> SHalf
                 [] k = 9 /\ j = 9 -> SOne
                 [] OTHER -> SZ
PHex(k, j) == CASE k \in {1, 2} /\ j \in {1, 2} -> SQ(<<3, 8>>)
                [] k \in {1, 2} /\ j = 6 -> SScale(<<1, 4>>, InvRoot2)          \*  1/(4 sqrt2)
                [] k \in {1, 2} /\ j = 9 -> SQ(<<1, 4>>)
                [] k = 3 /\ j = 3 -> SOne
                [] k \in {4, 5} /\ j \in {4, 5} -> SHalf
                [] k = 6 /\ j \in {1, 2} -> SScale(<<1, 4>>, InvRoot2)
                [] k = 6 /\ j = 6 -> SQ(<<3, 4>>)
                [] k = 6 /\ j = 9 -> SScale(<<-1, 2>>, InvRoot2)                \* -1/(2 sqrt2)
                [] k \in {7, 8} /\ j \in {7, 8} -> SHalf
                [] k = 9 /\ j \in {1, 2} -> SQ(<<1, 4>>)
                [] k = 9 /\ j = 6 -> SScale(<<-1, 2>>, InvRoot2)
                [] k = 9 /\ j = 9 -> SHalf
                [] OTHER -> SZ
PEntry(c, k, j) == CASE c = "mono" -> PMono(k, j) [] c = "ortho" -> POrtho(k, j)
                     [] c = "tetr" -> PTetr(k, j) [] c = "hex" -> PHex(k, j)
\* (P x)_k = sum_j P_kj x_j  (zero components of x contribute nothing and are skipped)
Project(c, x) == LET nz == {j \in I21 : x[j] # SZ} IN
    TLCEval([k \in I21 |-> FoldSet(LAMBDA j, acc : SAdd(SMul(PEntry(c, k, j), x[j]), acc), SZ, nz)])
\* the symmetry groups that define the classes (x3 is the distinguished axis)
OctaSet == {QuatRot(q) : q \in OctaQuats}
GroupOf(c) == CASE c = "mono" -> {R \in OctaSet : R[3][3] = QOne /\ R[1][2] = QZ /\ R[2][1] = QZ}          \* C2 about x3
                [] c = "ortho" -> {R \in OctaSet : \A i \in I3, j \in I3 : i # j => R[i][j] = QZ}          \* D2
                [] c = "tetr" -> {R \in OctaSet : R[3][3] \in {QOne, QNeg(QOne)}}                          \* D4
\* a rotation about x3 of infinite order (cos = 3/5, sin = 4/5): its fixed tensors are exactly the
\* transversely isotropic ones (its powers are dense in SO(2))
Rz345 == << <<<<3, 5>>, <<-4, 5>>, QZ>>, <<<<4, 5>>, <<3, 5>>, QZ>>, <<QZ, QZ, QOne>> >>
GroupAverage(T, G) == TScale(<<1, Cardinality(G)>>, FoldSet(LAMBDA g, acc : TAdd(TRotate(T, g), acc), TZero, G))
\* documented hexagonal constraints C11=C22, C13=C23, C44=C55, C66=(C11-C12)/2, rest 0: five generators
HexGen(h) == LET E(b) == BasisMat6(b)
                 add(A, B) == [i \in I6 |-> [j \in I6 |-> QAdd(A[i][j], B[i][j])]]
                 sc(r, A) == [i \in I6 |-> [j \in I6 |-> QMul(r, A[i][j])]]
             IN CASE h = 1 -> add(add(E(<<1, 1>>), E(<<2, 2>>)), sc(QHalf, E(<<6, 6>>)))
                  [] h = 2 -> E(<<3, 3>>)
                  [] h = 3 -> add(E(<<1, 3>>), E(<<2, 3>>))
                  [] h = 4 -> add(E(<<1, 2>>), sc(<<-1, 2>>, E(<<6, 6>>)))
                  [] h = 5 -> add(E(<<4, 4>>), E(<<5, 5>>))

\* ------------------------------------------------------------------ 6. invariants of a 3x3 matrix
Inv1(A) == MTrace(A)
Inv2(A) == QAdd(QAdd(QSub(QMul(A[1][1], A[2][2]), QMul(A[1][2], A[2][1])),
                     QSub(QMul(A[2][2], A[3][3]), QMul(A[2][3], A[3][2]))),
                QSub(QMul(A[3][3], A[1][1]), QMul(A[3][1], A[1][3])))        \* sum of principal 2x2 minors
Inv3(A) == MDet(A)
Elem1(l) == QAdd(QAdd(l[1], l[2]), l[3])
Elem2(l) == QAdd(QAdd(QMul(l[1], l[2]), QMul(l[2], l[3])), QMul(l[3], l[1]))
Elem3(l) == QMul(QMul(l[1], l[2]), l[3])
Diag3(l) == [i \in I3 |-> [j \in I3 |-> IF i = j THEN l[i] ELSE QZ]]
\* adjugate (transposed cofactors); inverse of a unimodular integer matrix = adj / det
Adj(A) == LET n(i) == (i % 3) + 1  p(i) == ((i + 1) % 3) + 1
          IN [i \in I3 |-> [j \in I3 |-> QSub(QMul(A[n(j)][n(i)], A[p(j)][p(i)]), QMul(A[n(j)][p(i)], A[p(j)][n(i)]))]]

\* ------------------------------------------------------------------ 7. polar decomposition
IsOrthogonal(R) == MMul(MT(R), R) = MId /\ MMul(R, MT(R)) = MId
IsSym3(U) == \A i \in I3, j \in I3 : U[i][j] = U[j][i]
Minor2(U, i, j) == QSub(QMul(U[i][i], U[j][j]), QMul(U[i][j], U[j][i]))
\* positive definite: Sylvester's criterion (leading principal minors > 0)
IsPD(U) == IsSym3(U) /\ QSign(U[1][1]) = 1 /\ QSign(Minor2(U, 1, 2)) = 1 /\ QSign(MDet(U)) = 1
\* positive semi-definite: ALL principal minors >= 0
IsPSD(U) == /\ IsSym3(U)
            /\ \A i \in I3 : QSign(U[i][i]) >= 0
            /\ \A i \in I3, j \in I3 : i < j => QSign(Minor2(U, i, j)) >= 0
            /\ QSign(MDet(U)) >= 0
\* rank of a PSD matrix from its principal minors
RankPSD(U) == IF MDet(U) # QZ THEN 3
              ELSE IF \E i \in I3, j \in I3 : i < j /\ Minor2(U, i, j) # QZ THEN 2
              ELSE IF \E i \in I3 : U[i][i] # QZ THEN 1 ELSE 0
IsPolarRight(M, R, U) == IsOrthogonal(R) /\ IsPSD(U) /\ MMul(R, U) = M       \* M = R.U
IsPolarLeft(M, R, V) == IsOrthogonal(R) /\ IsPSD(V) /\ MMul(V, R) = M        \* M = V.R
\* tr(U) tr(U^-1) >= lambda_max / lambda_min: exact conditioning factor of a PD stretch
StretchKappa(U) == QDiv(QMul(MTrace(U), MTrace(Adj(U))), MDet(U))
=============================================================================
