--------------------------- MODULE ResampleTrace ---------------------------
(***************************************************************************)
(* Layer C (C15): judges executions of the real                            *)
(* pydrex.stats.resample_orientations recorded by harness/checks/C15.py.   *)
(* The specification is OBSERVATIONAL: it does not predict which grain a   *)
(* seed selects (so a different but correct sampler is accepted); it       *)
(* checks, on integer facts projected from inputs and outputs, what the    *)
(* property states:                                                        *)
(*   * shape contract (Resample!ShapeOutcome): malformed input shapes      *)
(*     raise ValueError, well-formed ones return arrays of shape           *)
(*     (N, n, 3, 3) and (N, n), n = n_samples or M when not given;         *)
(*   * equal seeds give equal results (repro);                             *)
(*   * every output (orientation, volume) pair is an input pair of the     *)
(*     same snapshot (unp = 0; the counts partition the n outputs);        *)
(*   * zero-volume grains are never drawn (num_k = 0 => cnt_k = 0);        *)
(*   * each grain is drawn with probability f_k = num_k / D: the count is  *)
(*     inside the 6-sigma binomial region                                  *)
(*       (cnt_k D - n num_k)^2 <= 36 n num_k (D - num_k) + 36 D^2          *)
(*     evaluated by Resample!Within6Sigma in 32-bit-safe integer form.     *)
(*                                                                         *)
(* Trace format (ndjson, many traces per file, field tid):                 *)
(*  {tid, ev:"call", os, fs, nreq, exc, osh, vsh, repro, stat}             *)
(*     os, fs   input shapes;  nreq  n_samples (0 = not given)             *)
(*     exc      "None" | "ValueError" | "other:<name>"                     *)
(*     osh, vsh output shapes ([] when the call raised)                    *)
(*     repro    a second call with the same seed gave equal arrays         *)
(*     stat     TRUE when os[1] "snap" lines follow                        *)
(*  {tid, ev:"snap", i, D, n, calls, num, cnt, unp, dev_e12, zex}          *)
(*     i snapshot index (1-based), num[k] / D the input volume of grain k, *)
(*     cnt[k] how many outputs equal input pair k of snapshot i,           *)
(*     unp how many outputs equal no input pair of snapshot i,             *)
(*     calls how many calls (same inputs, distinct seeds) are pooled,      *)
(*     n the number of outputs of snapshot i over all pooled calls         *)
(*       (= calls x outputs per call; every single draw has probability    *)
(*       f_k, so the pooled count is judged by the same binomial region),  *)
(*     dev_e12 = max_k |volume_k - num[k]/D| in 1e-12 units, zex = "the    *)
(*       float volume is exactly 0 iff num[k] = 0".  Volumes may sit off   *)
(*       the rational grid by at most MaxDevE12 = 1e-8 (slow-drift class:  *)
(*       consecutive snapshots ~1e-9 apart): the expected count then moves *)
(*       by at most n * 1e-8 <= 0.01, i.e. |cnt D - n num| by <= 0.01 D,   *)
(*       against the 6 D slack of the +36 D^2 term of the region.          *)
(* One verdict line <<"REJECT", tid, line, clause, k>> per failed clause;  *)
(* the run always continues to the end of the file (<<"DONE", lines,       *)
(* rejected>>).  Clauses starting with "trace-" are defects of the         *)
(* recorder, not of PyDRex.                                                *)
(***************************************************************************)
EXTENDS Integers, Sequences, FiniteSets, FiniteSetsExt, TLC, Json, IOUtils

R == INSTANCE Resample WITH D <- 12, MaxM <- 1, AllLayouts <- FALSE, c <- <<>>

TraceLog == ndJsonDeserialize(IOEnv.TRACE_FILE)
NLines == Len(TraceLog)

VARIABLES l,      \* next line to consume
          cur,    \* the call the following snap lines belong to
          last,   \* verdicts <<tid, line, clause, k>> of the line consumed last
          nbad    \* number of verdicts so far
tvars == <<l, cur, last, nbad>>

Ev == TraceLog[l]
MaxDevE12 == 10000
NoCall == [tid |-> -1, N |-> 0, M |-> 0, n |-> 0, want |-> 0, seen |-> 0]

SeqSum(s) == FoldSet(LAMBDA k, acc : s[k] + acc, 0, DOMAIN s)
AsTuple(s) == [k \in 1..Len(s) |-> s[k]]

\* ------------------------------------------------------------------ call lines
CallVerdicts ==
    LET os == AsTuple(Ev.os)
        fs == AsTuple(Ev.fs)
        expect == R!ShapeOutcome(os, fs) IN
    IF expect = "ValueError" THEN
        (IF Ev.exc = "None" THEN <<<<"malformed-input-accepted", 0>>>>
         ELSE IF Ev.exc # "ValueError" THEN <<<<"wrong-exception-class", 0>>>>
         ELSE <<>>)
    ELSE IF Ev.exc # "None" THEN <<<<"valid-input-raised", 0>>>>
    ELSE (IF AsTuple(Ev.osh) # R!OutOShape(os, Ev.nreq) THEN <<<<"orientation-output-shape", 0>>>> ELSE <<>>)
      \o (IF AsTuple(Ev.vsh) # R!OutFShape(os, Ev.nreq) THEN <<<<"volume-output-shape", 0>>>> ELSE <<>>)
      \o (IF ~Ev.repro THEN <<<<"not-reproducible-for-equal-seeds", 0>>>> ELSE <<>>)

\* a call that announced snapshot lines must be followed by exactly that many
Dangling == IF cur.seen # cur.want THEN <<<<cur.tid, l, "trace-missing-snapshot-lines", 0>>>> ELSE <<>>

CallNext == IF Ev.stat /\ Ev.exc = "None" /\ Len(Ev.os) = 4
            THEN [tid |-> Ev.tid, N |-> Ev.os[1], M |-> Ev.os[2],
                  n |-> (IF Len(Ev.osh) >= 2 THEN Ev.osh[2] ELSE 0), want |-> Ev.os[1], seen |-> 0]
            ELSE [NoCall EXCEPT !.tid = Ev.tid]

\* ------------------------------------------------------------------ snapshot lines
GrainVerdict(k) ==
    IF ~R!ArithDomain(Ev.cnt[k], Ev.n, Ev.num[k], Ev.D) THEN <<<<"trace-outside-arithmetic-domain", k>>>>
    ELSE IF Ev.num[k] = 0 /\ Ev.cnt[k] > 0 THEN <<<<"zero-volume-grain-drawn", k>>>>
    ELSE IF ~R!Within6Sigma(Ev.cnt[k], Ev.n, Ev.num[k], Ev.D) THEN <<<<"count-outside-6-sigma", k>>>>
    ELSE <<>>

RECURSIVE Grains(_)
Grains(k) == IF k = 0 THEN <<>> ELSE Grains(k - 1) \o GrainVerdict(k)

SnapVerdicts ==
    IF cur.tid # Ev.tid \/ cur.seen >= cur.want \/ Ev.i # cur.seen + 1
        THEN <<<<"trace-snapshot-without-call", 0>>>>
    ELSE IF Len(Ev.num) # cur.M \/ Len(Ev.cnt) # cur.M \/ Ev.D < 1 \/ Ev.calls < 1
        THEN <<<<"trace-snapshot-inconsistent-with-call", 0>>>>
    ELSE IF Ev.n % Ev.calls # 0 \/ Ev.n \div Ev.calls # cur.n
        THEN <<<<"trace-snapshot-inconsistent-with-call", 0>>>>
    ELSE IF Ev.dev_e12 < 0 \/ Ev.dev_e12 > MaxDevE12 \/ ~Ev.zex
        THEN <<<<"trace-volumes-off-declared-grid", 0>>>>
    ELSE IF SeqSum(Ev.num) # Ev.D \/ \E k \in 1..cur.M : Ev.num[k] < 0
        THEN <<<<"trace-volumes-not-normalised", 0>>>>
    ELSE IF Ev.unp < 0 \/ (\E k \in 1..cur.M : Ev.cnt[k] < 0) \/ SeqSum(Ev.cnt) + Ev.unp # Ev.n
        THEN <<<<"trace-counts-do-not-partition-outputs", 0>>>>
    ELSE (IF Ev.unp > 0 THEN <<<<"output-pair-not-an-input-pair", 0>>>> ELSE <<>>) \o Grains(cur.M)

\* ------------------------------------------------------------------ trace machine
Tag(vs) == [k \in 1..Len(vs) |-> <<Ev.tid, l, vs[k][1], vs[k][2]>>]

TInit == l = 1 /\ cur = NoCall /\ last = <<>> /\ nbad = 0

Consume ==
    /\ l <= NLines
    /\ l' = l + 1
    /\ LET vs == IF Ev.ev = "call" THEN Dangling \o Tag(CallVerdicts)
                 ELSE IF Ev.ev = "snap" THEN Tag(SnapVerdicts)
                 ELSE Tag(<<<<"trace-unknown-event", 0>>>>) IN
       /\ last' = vs
       /\ nbad' = nbad + Len(vs)
    /\ cur' = IF Ev.ev = "call" THEN CallNext
              ELSE IF Ev.ev = "snap" /\ cur.tid = Ev.tid THEN [cur EXCEPT !.seen = @ + 1]
              ELSE cur

\* the last call may still be waiting for snapshot lines
Finish == /\ l = NLines + 1 /\ cur.seen # cur.want
          /\ last' = <<<<cur.tid, NLines, "trace-missing-snapshot-lines", 0>>>>
          /\ nbad' = nbad + 1
          /\ cur' = NoCall
          /\ l' = l

TNext == Consume \/ Finish
TSpec == TInit /\ [][TNext]_tvars

Report == /\ (IF last # <<>> THEN \A k \in 1..Len(last) : PrintT(<<"REJECT", last[k][1], last[k][2], last[k][3], last[k][4]>>) ELSE TRUE)
          /\ (IF l = NLines + 1 /\ cur.seen = cur.want THEN PrintT(<<"DONE", NLines, nbad>>) ELSE TRUE)
=============================================================================
