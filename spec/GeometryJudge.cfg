INIT JudgeInit
NEXT JudgeNext
CONSTANTS
  SphB = 1
  TrigB = 1
  PythB = 1
  DiskN = 1
  PoleRots <- QuickRots
  GridSteps = {}
  DataN = {}
  BigDataN = {}
  DataClasses <- AllDataClasses
  Weights <- QuickWeights
INVARIANT JudgeEmit
CHECK_DEADLOCK FALSE
