INIT ScenInit
NEXT ScenNext
CONSTANTS
  K = 30
INVARIANT EmitScen
CHECK_DEADLOCK FALSE
