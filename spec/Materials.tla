------------------------------ MODULE Materials ------------------------------
(***************************************************************************)
(* Extension beyond the listed properties (X07): three small tables and    *)
(* formulas the rest of the library leans on, specified exactly.           *)
(*   get_crss(phase, fabric)      the documented CRSS table in the         *)
(*        documented slip-system order ((010)[100], (001)[100],            *)
(*        (010)[001], (100)[001]); INF stands for an infinite CRSS; every   *)
(*        other (phase, fabric) pair is refused with ValueError            *)
(*   peridotite_solidus(P, fit)   the two polynomial fits evaluated in     *)
(*        exact rationals (pressures n/2 GPa, coefficients / 1000), unsupported fits  *)
(*        refused with ValueError; lemma: the Hirschmann fit is concave    *)
(*        and both fits agree within 40 K between 0 and 5 GPa              *)
(*   upper_tri_to_symmetric(a)    mirror the upper triangle; lemmas:       *)
(*        symmetric, upper triangle and diagonal preserved                 *)
(* Every case is emitted with its exact expected result and replayed.      *)
(***************************************************************************)
EXTENDS Integers, Sequences, FiniteSets, TLC, Json, Rat
VARIABLES case
INF == 999999
\* ---------------------------------------------------------------- CRSS
Crss(p, f) == IF p = 0 THEN (CASE f = 0 -> <<1, 2, 3, INF>> [] f = 1 -> <<3, 2, 1, INF>> [] f = 2 -> <<3, 2, INF, 1>>
                               [] f = 3 -> <<1, 1, 3, INF>> [] f = 4 -> <<3, 1, 2, INF>> [] OTHER -> <<>>)
              ELSE IF p = 1 /\ f = 5 THEN <<INF, INF, INF, 1>> ELSE <<>>
\* ---------------------------------------------------------------- solidus (coefficients / 1000)
\* pressures are half-integers n / 2 GPa; S(fit, n) = 4000 T is an integer, T = S / 4000 an exact rational
S4000(c2, c1, c0, n) == c2 * n * n + 2 * c1 * n + 4 * c0
SInt(fit, n) == IF fit = "Hirschmann2000" THEN S4000(-5104, 132899, 1120661, n) ELSE S4000(-6800, 141400, 1101300, n)
Solidus(fit, n) == QNorm(SInt(fit, n), 4000)
Pressures == 0..20
Fits == {"Hirschmann2000", "Duvernay2024", "hirschmann2000", "Katz2003", ""}
Supported(fit) == fit \in {"Hirschmann2000", "Duvernay2024"}
\* ---------------------------------------------------------------- mirror
Mats == [1..3 -> [1..3 -> {0, 1, -2}]]
Mirror(a) == [i \in 1..3 |-> [j \in 1..3 |-> IF i <= j THEN a[i][j] ELSE a[j][i]]]
SomeMats == {a \in Mats : a[1][1] = 1 /\ a[2][2] = 0 /\ a[3][3] = -2 /\ a[1][3] = a[2][1]}   \* 3^5 = 243 of the 3^9
\* ---------------------------------------------------------------- cases
Cases == {[kind |-> "crss", p |-> p, f |-> f] : p \in 0..2, f \in 0..6}
    \cup {[kind |-> "solidus", fit |-> fit, P |-> P] : fit \in Fits, P \in Pressures}
    \cup {[kind |-> "mirror", a |-> a] : a \in SomeMats}
Expected(c) == CASE c.kind = "crss" -> Crss(c.p, c.f)
                 [] c.kind = "solidus" -> (IF Supported(c.fit) THEN Solidus(c.fit, c.P) ELSE <<0, 0>>)
                 [] c.kind = "mirror" -> Mirror(c.a)
Refused(c) == \/ c.kind = "crss" /\ Crss(c.p, c.f) = <<>>
              \/ c.kind = "solidus" /\ ~Supported(c.fit)
Init == case \in Cases
Next == UNCHANGED case
\* ---------------------------------------------------------------- lemmas
CrssShape == case.kind = "crss" /\ ~Refused(case) =>
    LET v == Expected(case) IN /\ Len(v) = 4
                               /\ Cardinality({i \in 1..4 : v[i] = INF}) = (IF case.p = 0 THEN 1 ELSE 3)
                               /\ \E i \in 1..4 : v[i] = 1
SolidusLemma == case.kind = "solidus" /\ Supported(case.fit) =>
    LET n == case.P IN
      /\ QIsRat(Solidus(case.fit, n))
      /\ SInt(case.fit, n) + SInt(case.fit, n + 2) < 2 * SInt(case.fit, n + 1)                      \* concave
      /\ n <= 10 => Abs(SInt("Hirschmann2000", n) - SInt("Duvernay2024", n)) < 40 * 4000           \* within 40 K up to 5 GPa
MirrorLemma == case.kind = "mirror" =>
    LET m == Expected(case) IN /\ \A i, j \in 1..3 : m[i][j] = m[j][i]
                               /\ \A i, j \in 1..3 : i <= j => m[i][j] = case.a[i][j]
Emit == PrintT(<<"CASE", ToJson([c |-> case, refused |-> Refused(case), expected |-> Expected(case)])>>)
=============================================================================
