----------------------------- MODULE TensorsMat -----------------------------
(***************************************************************************)
(* C11 driver 5: second-order tensors - invariants and polar decomposition *)
(* on constructed exact inputs.                                            *)
(*  inv    A = P diag(l) P^-1, P = L.U unimodular (unit lower x unit upper *)
(*         triangular, integer), l an integer triple: the eigenvalues of A *)
(*         are l by construction.  TLC proves                              *)
(*           SimilarityLemma   det P = 1, P.adj(P) = I, A.P = P.diag(l);   *)
(*           InvariantsLemma   (tr A, sum of principal 2x2 minors, det A)  *)
(*                             = (e1, e2, e3)(l); I2 = (tr^2 - tr A^2)/2;  *)
(*           CayleyHamilton    A^3 - I1 A^2 + I2 A - I3 = 0;               *)
(*  polar  M = R.U (right) or M = V.R (left), R = +-QuatRot(q) an exact    *)
(*         orthogonal matrix (proper and improper), the stretch a small    *)
(*         integer symmetric matrix, positive definite by Sylvester's      *)
(*         criterion, or singular positive semi-definite a.a' + b.b'.      *)
(*         TLC proves                                                      *)
(*           PolarLemma        the defining equations hold for the         *)
(*                             constructed factors, M'M = U^2 (right),     *)
(*                             MM' = V^2 (left), det R = +-1, the rank;    *)
(*           SharedRotation    R.U = (R U R').R with R U R' again          *)
(*                             symmetric PSD: both forms share R;          *)
(* and emits every input with the exact expected output.  For singular     *)
(* input the orthogonal factor is not unique; the record says so (rank).   *)
(***************************************************************************)
EXTENDS Tensors, Json
CONSTANTS UpperSet, LamSet, PolarQuats, StretchSet
VARIABLE c
T3 == (-1..1) \X (-1..1) \X (-1..1)
UpperQuick == {<<1, 0, -1>>, <<0, 1, 1>>, <<1, 1, 1>>}
LamQuick == {<<1, 2, 3>>, <<2, 2, -1>>, <<0, 0, 0>>, <<1, 1, 1>>, <<-2, 3, 0>>, <<3, -1, -2>>}
LamAll == {l \in (-2..3) \X (-2..3) \X (-2..3) : l[1] <= l[2] /\ l[2] <= l[3]}
Lower(t) == << <<Q(1), QZ, QZ>>, <<Q(t[1]), Q(1), QZ>>, <<Q(t[2]), Q(t[3]), Q(1)>> >>
Upper(t) == << <<Q(1), Q(t[1]), Q(t[2])>>, <<QZ, Q(1), Q(t[3])>>, <<QZ, QZ, Q(1)>> >>
\* stretches: u = <<d1, d2, d3, o12, o13, o23>>
SymOf(u) == << <<Q(u[1]), Q(u[4]), Q(u[5])>>, <<Q(u[4]), Q(u[2]), Q(u[6])>>, <<Q(u[5]), Q(u[6]), Q(u[3])>> >>
StretchCandidates == (1..3) \X (1..3) \X (1..3) \X (-1..1) \X (-1..1) \X (-1..1)
StretchAll == {u \in StretchCandidates : IsPD(SymOf(u))}
Hash(u) == u[1] + 2 * u[2] + 3 * u[3] + 4 * u[4] + 5 * u[5] + 6 * u[6]
StretchQuick == {u \in StretchAll : Hash(u) % 9 = 0}
StretchThorough == {u \in StretchAll : Hash(u) % 2 = 0}
UpperThorough == {t \in T3 : t[1] + t[2] + t[3] \in {-1, 0, 2}}
\* singular PSD stretches a.a' + b.b'
Vecs == {<<0, 0, 0>>, <<1, 0, 0>>, <<1, 1, 0>>, <<1, -1, 2>>, <<0, 2, 1>>}
Outer2(a, b) == [i \in I3 |-> [j \in I3 |-> Q(a[i] * a[j] + b[i] * b[j])]]
PolarQuatsQuick == {<<1, 0, 0, 0>>, <<1, 1, 0, 0>>, <<1, 1, 1, 0>>, <<1, -1, 1, 1>>, <<2, 1, 0, 0>>, <<2, 1, 1, 1>>}
PolarQuatsAll == SmallQuats \cup {<<2, 1, 0, 0>>, <<0, 1, -2, 0>>, <<2, 1, 1, 1>>, <<1, 2, -1, 1>>, <<2, 1, 1, 0>>, <<1, -1, 0, 2>>}

Init == \/ c \in {[kind |-> "seedi", lo |-> t] : t \in T3}
        \/ c \in {[kind |-> "seedp", q |-> q] : q \in PolarQuats}
Next == \/ /\ c.kind = "seedi"
           /\ c' \in {[kind |-> "inv", lo |-> c.lo, up |-> u, l |-> l] : u \in UpperSet, l \in LamSet}
        \/ /\ c.kind = "seedp"
           /\ \/ c' \in {[kind |-> "polar", q |-> c.q, sg |-> sg, side |-> side, S |-> MEval(SymOf(u))] :
                           sg \in {1, -1}, side \in {"right", "left"}, u \in StretchSet}
              \/ c' \in {[kind |-> "polar", q |-> c.q, sg |-> sg, side |-> side, S |-> MEval(Outer2(a, b))] :
                           sg \in {1, -1}, side \in {"right", "left"}, a \in Vecs, b \in Vecs}

\* ---------------------------------------------------------------- invariants of a second-order tensor
Pm == MEval(MMul(Lower(c.lo), Upper(c.up)))
Lam == <<Q(c.l[1]), Q(c.l[2]), Q(c.l[3])>>
Am == MEval(MMul(MMul(Pm, Diag3(Lam)), Adj(Pm)))
SimilarityLemma == c.kind = "inv" =>
    /\ MDet(Pm) = QOne
    /\ MEval(MMul(Pm, Adj(Pm))) = MEval(MId)
    /\ MEval(MMul(Am, Pm)) = MEval(MMul(Pm, Diag3(Lam)))
InvariantsLemma == c.kind = "inv" =>
    /\ Inv1(Am) = Elem1(Lam) /\ Inv2(Am) = Elem2(Lam) /\ Inv3(Am) = Elem3(Lam)
    /\ Inv2(Am) = QMul(QHalf, QSub(QMul(MTrace(Am), MTrace(Am)), MTrace(MMul(Am, Am))))
CayleyHamilton == c.kind = "inv" =>
    LET A2 == MEval(MMul(Am, Am)) A3 == MEval(MMul(A2, Am)) IN
    MEval(MAdd(MSub(A3, MScale(Inv1(Am), A2)), MSub(MScale(Inv2(Am), Am), MScale(Inv3(Am), MId)))) = MEval(MZero)

\* ---------------------------------------------------------------- polar decomposition
Rm == MEval(MScale(Q(c.sg), QuatRot(c.q)))
Mm == IF c.side = "right" THEN MEval(MMul(Rm, c.S)) ELSE MEval(MMul(c.S, Rm))
PolarLemma == c.kind = "polar" =>
    /\ IsOrthogonal(Rm) /\ MDet(Rm) = Q(c.sg)
    /\ IsPSD(c.S)
    /\ (RankPSD(c.S) = 3) = IsPD(c.S)
    /\ IF c.side = "right"
       THEN IsPolarRight(Mm, Rm, c.S) /\ MEval(MMul(MT(Mm), Mm)) = MEval(MMul(c.S, c.S))
       ELSE IsPolarLeft(Mm, Rm, c.S) /\ MEval(MMul(Mm, MT(Mm))) = MEval(MMul(c.S, c.S))
    /\ QSign(MDet(Mm)) = (IF RankPSD(c.S) = 3 THEN c.sg ELSE 0)
SharedRotation == c.kind = "polar" =>
    LET V == MEval(MMul(MMul(Rm, c.S), MT(Rm))) IN
    /\ IsPSD(V)
    /\ MEval(MMul(Rm, c.S)) = MEval(MMul(V, Rm))
StretchSetLemma == c.kind = "seedp" => (\A u \in StretchSet : IsPD(SymOf(u))) /\ Cardinality(StretchSet) > 0

Expected ==
    IF c.kind = "inv"
    THEN [kind |-> "inv", A |-> MatToSeq(Am), l |-> c.l, e |-> <<Elem1(Lam), Elem2(Lam), Elem3(Lam)>>]
    ELSE [kind |-> "polar", side |-> c.side, q |-> c.q, sg |-> c.sg, M |-> MatToSeq(Mm), R |-> MatToSeq(Rm),
          S |-> MatToSeq(c.S), rank |-> RankPSD(c.S),
          kappa |-> IF RankPSD(c.S) = 3 THEN StretchKappa(c.S) ELSE QZ]
Emit == c.kind \in {"seedi", "seedp"} \/ PrintT(<<"CASE", ToJson(Expected)>>)
=============================================================================
