SPECIFICATION Enum2Spec
CONSTANTS
  Minerals = {"a", "b", "c", "d"}
  Files = {"f1"}
  Postfixes = {"1", "10", "q"}
  Configs = {}
  Seeds = {}
  Textures = {}
  Flows = {}
  Pars = {}
  Callbacks = {}
  MaxUpd = 0
  MaxOps = 4
  FixedSavers = TRUE
INVARIANT EmitAtEnd
INVARIANT DiskWellFormed
PROPERTY RoundTrip
PROPERTY PostfixIsolation
CHECK_DEADLOCK FALSE
