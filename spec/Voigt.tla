------------------------------- MODULE Voigt -------------------------------
(***************************************************************************)
(* Layer A / C10: the Voigt average of a polycrystal.                      *)
(*                                                                         *)
(* WHAT IS SPECIFIED                                                       *)
(*   Average(minerals, assemblage, fractions, tensors)  =  for every       *)
(*   stored snapshot s separately                                          *)
(*        SUM_m SUM_g  phi(phase m) * f[m][s][g]                           *)
(*                     * Rotate(C(phase m), Transpose(A[m][s][g]))         *)
(*   as a 6x6 Voigt matrix, where                                          *)
(*   - A is the grain's orientation, a matrix of direction cosines         *)
(*     (A[i][j] = cosine between crystal axis i and external axis j, the   *)
(*     convention documented in pydrex.diagnostics / pydrex.core), so      *)
(*     crystal -> external is the TRANSPOSE and the single-crystal tensor  *)
(*     seen from outside is Rotate(C, A^T) with the tensor transformation  *)
(*     law T'_ijkl = R_ia R_jb R_kc R_ld T_abcd (Mat3!TRotate);            *)
(*   - phi(phase) is the fraction listed for that phase in the assemblage  *)
(*     (found by phase identity);                                          *)
(*   - C(phase) is the single-crystal stiffness OF THAT PHASE (olivine ->  *)
(*     tensors.olivine, enstatite -> tensors.enstatite): chosen by phase   *)
(*     IDENTITY, whatever the order of the assemblage list or of the       *)
(*     mineral list.  The named deviation AverageByPosition picks the      *)
(*     tensor by POSITION in the assemblage from the ordinal-ordered list  *)
(*     <<olivine, enstatite>> (finding F5); it is emitted only so that the *)
(*     replayer can name the clause when the code follows it.              *)
(*   Outcome(shapes): the rejection table - minerals with unequal grain    *)
(*   counts, unequal numbers of stored snapshots, or a mineral whose       *)
(*   orientation and volume histories differ in length -> "ValueError".    *)
(*                                                                         *)
(* WHAT TLC CHECKS (invariants, exact rational arithmetic)                 *)
(*   SymmetricResult     every enumerated average is a symmetric 6x6       *)
(*   BasisModuliK/G      K_V and G_V (linear functionals of the 6x6) are   *)
(*                       unchanged by TRotate on each of the 21 basis      *)
(*                       tensors x rotation set.  By linearity this holds  *)
(*                       for all tensors; SmallRots contains the           *)
(*                       octahedral group and an element of infinite order *)
(*                       (cos(theta) = -1/3), which generate a dense       *)
(*                       subgroup of SO(3), so by continuity it holds for  *)
(*                       all rotations.                                    *)
(*   ModuliOfAverage     hence, when every grain-volume vector sums to 1,  *)
(*                       (K_V, G_V)(average) = SUM_ph phi_ph (K_V,G_V)(C_ph)*)
(*                       on every enumerated case, whatever the texture    *)
(*   CoRotation          Average(A Q^T) = Rotate(Average(A), Q), computed  *)
(*                       directly (no table) on octahedral textures x      *)
(*                       denominator-3 frames and vice versa               *)
(*   MemoAgrees          the table of pre-rotated single-crystal tensors   *)
(*                       used by the enumerator equals direct evaluation   *)
(*                       of Average (and of AverageByPosition)             *)
(*   AlignedReturnsC     one grain with A = I, f = 1, phi = 1 returns C    *)
(*   DeviationLocus      by-position = by-identity exactly on assemblages  *)
(*                       listed in ordinal order ((ol), (ol,en))           *)
(*   RejectionOrderFree  Outcome does not depend on the mineral list order *)
(*   (Mode "negative": a deliberately wrong functional must be refuted.)   *)
(*                                                                         *)
(* WHAT TLC EMITS  (Mode "generate")                                       *)
(*   TABLES  rotation table, tensor library, the functionals K_V, G_V and  *)
(*           the moduli law as terms for the generic evaluator, Voigt maps *)
(*   CASE    assemblage x mineral-list order x phase fractions x tensor    *)
(*           library x 1-3 grains x 1-2 snapshots x texture x volumes with *)
(*           the exact expected 6x6 per snapshot (rationals [n,d]; times   *)
(*           the library's scale) and the deviation's value where it       *)
(*           differs                                                       *)
(*   REJ     the rejection table                                           *)
(* Mode "history" (Layer-B style): the average is a function of the        *)
(* tensors the passed object holds AT CALL TIME.  A small machine keeps the *)
(* library currently held by ONE shared StiffnessTensors instance (per      *)
(* phase); actions SetTensor(phase, library) and Average(instance, case)    *)
(* with instance = the shared one, the import-time default argument (never  *)
(* modified: always the built-ins) or a fresh pre-customised object.  TLC   *)
(* explores every action sequence up to HistDepth plus a few long scripts   *)
(* (built-in -> customA -> customB -> built-in), checks that the state      *)
(* variable agrees with the logged assignments, that every expected value   *)
(* is the average under the library current at that step, that an aligned   *)
(* grain returns the CURRENT tensor and that the default instance never     *)
(* changes, and emits each behaviour (HIST) with the exact expected value   *)
(* of every call for replay on one real, mutated object.                    *)
(* Mode "measures": the law for the floating-point measures recorded by    *)
(* the harness (integers in 1e-12 relative units) is evaluated here.       *)
(*                                                                         *)
(* Number ranges: built-in stiffnesses are integers in hundredths of GPa   *)
(* and are only combined with octahedral orientations; custom tensors have *)
(* entries in -3..9 and meet denominator-3 rotations (denominator 81);     *)
(* phase fractions are quarters, grain volumes halves/quarters/thirds/     *)
(* sixths, so every denominator divides 81*48 and numerators stay < 2^31.  *)
(***************************************************************************)
EXTENDS Mat3, SequencesExt, Json, IOUtils

CONSTANTS Tier,     \* "quick" | "thorough" : size of the enumerated domain
          Mode      \* "generate" | "negative" | "measures" | "history"
VARIABLES c,        \* the case / lemma instance / table entry (never changes)
          res       \* [done |-> FALSE] until the one-shot Next has evaluated the case
vars == <<c, res>>

Thorough == Tier = "thorough"
Mod(a, b) == a % b          \* kept in one place: a SANY error message quoting a line with the percent sign crashes its printer

\* ------------------------------------------------------------------ phases
Phases == <<"olivine", "enstatite">>             \* ordinal order: MineralPhase.olivine = 0, enstatite = 1
Ordinal(ph) == IF ph = "olivine" THEN 0 ELSE 1
IndexOf(s, x) == CHOOSE i \in DOMAIN s : s[i] = x

\* ------------------------------------------------------------------ 6x6 helpers
M6Eval(M) == TLCEval([i \in I6 |-> TLCEval([j \in I6 |-> M[i][j]])])
QM6(M) == M6Eval([i \in I6 |-> [j \in I6 |-> Q(M[i][j])]])      \* integer 6x6 -> rational 6x6
\* symmetric 6x6 from its upper triangle, row p listing columns p..6
Sym6(u) == [i \in I6 |-> [j \in I6 |-> LET p == IF i <= j THEN i ELSE j
                                           q == IF i <= j THEN j ELSE i IN u[p][q - p + 1]]]
IsSym6(M) == \A i \in I6 : \A j \in I6 : M[i][j] = M[j][i]

\* ------------------------------------------------------------------ Voigt moduli (linear functionals)
Diag3(M) == QAdd(QAdd(M[1][1], M[2][2]), M[3][3])
Off3(M) == QAdd(QAdd(M[1][2], M[1][3]), M[2][3])
Shear3(M) == QAdd(QAdd(M[4][4], M[5][5]), M[6][6])
KV(M) == QMul(<<1, 9>>, QAdd(Diag3(M), QMul(Q(2), Off3(M))))
GV(M) == QMul(<<1, 15>>, QAdd(QSub(Diag3(M), Off3(M)), QMul(Q(3), Shear3(M))))
KWrong(M) == QMul(<<1, 9>>, QAdd(Diag3(M), Off3(M)))           \* negative control: not an invariant

\* ------------------------------------------------------------------ the average
TZero == TLCEval([x \in I4 |-> QZ])
TSum(F(_), S) == FoldSet(LAMBDA x, acc : TAdd(F(x), acc), TZero, S)
\* single-crystal tensor seen from the external frame: crystal -> external is the transpose
Rotated(C6, A) == TRotate(ToTensor(C6), MT(A))
NSnap(minerals) == Len(minerals[1].ori)
Grains(minerals) == {x \in (DOMAIN minerals) \X (1..6) : x[2] <= minerals[x[1]].n}
PhaseFraction(asm, phi, ph) == phi[IndexOf(asm, ph)]
SingleCrystal(tensors, ph) == IF ph = "olivine" THEN tensors.olivine ELSE tensors.enstatite
TensorByPosition(tensors, asm, ph) == <<tensors.olivine, tensors.enstatite>>[IndexOf(asm, ph)]

\* RotOf(m, s, g) = the rotated single-crystal tensor of grain g of mineral m in snapshot s
AverageWith(RotOf(_, _, _), minerals, asm, phi) ==
  TLCEval([s \in 1..NSnap(minerals) |->
     M6Eval(ToVoigt(TSum(LAMBDA x : TScale(QMul(PhaseFraction(asm, phi, minerals[x[1]].phase),
                                                 minerals[x[1]].vol[s][x[2]]),
                                            RotOf(x[1], s, x[2])),
                         Grains(minerals))))])

\* minerals[m] = [phase, n, ori : snapshots of n rotation matrices, vol : snapshots of n rationals]
Average(minerals, asm, phi, tensors) ==
  AverageWith(LAMBDA m, s, g : Rotated(SingleCrystal(tensors, minerals[m].phase), minerals[m].ori[s][g]),
              minerals, asm, phi)
AverageByPosition(minerals, asm, phi, tensors) ==
  AverageWith(LAMBDA m, s, g : Rotated(TensorByPosition(tensors, asm, minerals[m].phase), minerals[m].ori[s][g]),
              minerals, asm, phi)

\* ------------------------------------------------------------------ rejection table
\* shapes[m] = [phase, n (grain count), nOri, nFrac (stored orientation / volume snapshots)]
RejectClause(shapes) ==
  IF \E m \in DOMAIN shapes : shapes[m].n # shapes[1].n THEN "unequal-grain-counts"
  ELSE IF \E m \in DOMAIN shapes : shapes[m].nOri # shapes[1].nOri THEN "unequal-snapshot-counts"
  ELSE IF \E m \in DOMAIN shapes : shapes[m].nFrac # shapes[1].nOri THEN "orientations-volumes-mismatch"
  ELSE "none"
Outcome(shapes) == IF RejectClause(shapes) = "none" THEN "ok" ELSE "ValueError"

\* ------------------------------------------------------------------ exact domain
RotSeq == SetToSeq(OctaRots) \o SetToSeq(SmallRots \ OctaRots)      \* 1..24 octahedral, 25..40 denominator 3
IdIdx == CHOOSE r \in 1..24 : RotSeq[r] = MId

BuiltinOl == Sym6(<< <<32071, 6984, 7122, 0, 0, 0>>, <<19725, 7480, 0, 0, 0>>, <<23432, 0, 0, 0>>,
                     <<6377, 0, 0>>, <<7767, 0>>, <<7836>> >>)
BuiltinEn == Sym6(<< <<23690, 7960, 6320, 0, 0, 0>>, <<18050, 5680, 0, 0, 0>>, <<23040, 0, 0, 0>>,
                     <<8430, 0, 0>>, <<7940, 0>>, <<8010>> >>)
CustAOl == Sym6(<< <<9, 3, 2, 1, -1, 2>>, <<7, 4, -2, 1, 1>>, <<8, 1, 2, -1>>, <<3, 1, -1>>, <<4, 2>>, <<5>> >>)
CustAEn == Sym6(<< <<6, 2, 3, -1, 2, 1>>, <<9, 1, 2, -1, 1>>, <<5, -2, 1, 2>>, <<4, -1, 1>>, <<2, 1>>, <<3>> >>)
CustBOl == Sym6(<< <<5, 1, 0, 2, 0, -3>>, <<4, -1, 0, 3, 1>>, <<7, 2, -2, 0>>, <<1, 0, 2>>, <<3, -1>>, <<2>> >>)
CustBEn == Sym6(<< <<3, -2, 1, 0, 4, 1>>, <<8, 0, -1, 2, 0>>, <<2, 3, 1, -1>>, <<5, 2, 0>>, <<1, 1>>, <<6>> >>)
\* entries are integers; the real tensor is entry / scale (GPa)
Lib == << [name |-> "builtin", scale |-> 100, rots |-> "octa", ol |-> BuiltinOl, en |-> BuiltinEn],
          [name |-> "customA", scale |-> 1, rots |-> "small", ol |-> CustAOl, en |-> CustAEn],
          [name |-> "customB", scale |-> 2, rots |-> "small", ol |-> CustBOl, en |-> CustBEn] >>
NLib == Len(Lib)
NR(l) == IF Lib[l].rots = "octa" THEN 24 ELSE 40
SingleCrystalInt(l, ph) == IF ph = "olivine" THEN Lib[l].ol ELSE Lib[l].en
LibTensors(l) == [olivine |-> QM6(Lib[l].ol), enstatite |-> QM6(Lib[l].en)]

\* table of pre-rotated single-crystal tensors, evaluated once at start-up (TLC caches constants)
MemoKeys == {k \in (1..NLib) \X (1..2) \X (1..40) : k[3] <= NR(k[1])}
RotC == IF Mode \in {"generate", "history"}
        THEN TLCEval([k \in MemoKeys |-> Rotated(SingleCrystal(LibTensors(k[1]), Phases[k[2]]), RotSeq[k[3]])])
        ELSE <<>>
\* case minerals carry rotation INDICES; Pick(ph) = index of the phase whose tensor is used
AvgMemo(cs, Pick(_)) ==
  AverageWith(LAMBDA m, s, g : RotC[<<cs.lib, Pick(cs.mins[m].phase), cs.mins[m].ori[s][g]>>],
              cs.mins, cs.asm, cs.phi)
ById(cs) == AvgMemo(cs, LAMBDA ph : Ordinal(ph) + 1)
ByPos(cs) == AvgMemo(cs, LAMBDA ph : IndexOf(cs.asm, ph))
\* the same minerals with actual matrices, optionally seen from a frame rotated by Qm (A -> A Q^T)
Concrete(mins, Qm) ==
  [m \in DOMAIN mins |->
     [phase |-> mins[m].phase, n |-> mins[m].n, vol |-> mins[m].vol,
      ori |-> [s \in DOMAIN mins[m].ori |->
                 [g \in DOMAIN mins[m].ori[s] |-> MEval(MMul(RotSeq[mins[m].ori[s][g]], MT(Qm)))]]]]

\* ---- grids
OlEn == <<"olivine", "enstatite">>
EnOl == <<"enstatite", "olivine">>
Configs == {[asm |-> <<"olivine">>, order |-> <<"olivine">>], [asm |-> <<"enstatite">>, order |-> <<"enstatite">>]}
           \cup {[asm |-> a, order |-> o] : a \in {OlEn, EnOl}, o \in {OlEn, EnOl}}
PhiFirst == IF Thorough THEN {<<0, 1>>, <<1, 4>>, <<1, 2>>, <<3, 4>>, <<1, 1>>} ELSE {<<1, 4>>, <<3, 4>>, <<1, 1>>}
PhiGrid(asm) == IF Len(asm) = 1 THEN {<<QOne>>} ELSE {<<p, QSub(QOne, p)>> : p \in PhiFirst}
\* grain-volume vectors: normalised ones, and one per n that does not sum to 1
VolsNorm(n) == CASE n = 1 -> << <<QOne>> >>
                 [] n = 2 -> << <<QHalf, QHalf>>, <<<<1, 4>>, <<3, 4>>>>, <<<<2, 3>>, <<1, 3>>>>, <<QZ, QOne>> >>
                 [] n = 3 -> << <<<<1, 3>>, <<1, 3>>, <<1, 3>>>>, <<QHalf, <<1, 4>>, <<1, 4>>>>,
                                <<<<1, 6>>, <<1, 3>>, QHalf>>, <<<<1, 4>>, QZ, <<3, 4>>>> >>
VolsFree(n) == CASE n = 1 -> << <<<<3, 4>>>>, <<QHalf>> >>
                 [] n = 2 -> << <<QHalf, <<1, 4>>>>, <<<<1, 3>>, <<1, 3>>>> >>
                 [] n = 3 -> << <<<<1, 4>>, <<1, 4>>, <<1, 4>>>>, <<QHalf, QHalf, <<1, 4>>>> >>
NVol(n) == Len(VolsNorm(n)) + 1                      \* last index = the non-normalised family
Vol(n, v, m, s) == IF v <= Len(VolsNorm(n)) THEN VolsNorm(n)[1 + Mod(v - 1 + m + (s - 1), Len(VolsNorm(n)))]
                   ELSE VolsFree(n)[1 + Mod(m + s - 1, Len(VolsFree(n)))]
\* texture number t of the mineral with phase ordinal m, snapshot s: n rotation indices below modulus nr
Tex(nr, t, m, s, n) == [g \in 1..n |-> 1 + Mod(t - 1 + 7 * (g - 1) + 11 * m + 5 * (s - 1), nr)]
MineralOf(ph, nr, t, n, ns, v) ==
  [phase |-> ph, n |-> n,
   ori |-> [s \in 1..ns |-> Tex(nr, t, Ordinal(ph), s, n)],
   vol |-> [s \in 1..ns |-> Vol(n, v, Ordinal(ph), s)]]
CaseOf(tag, cf, phi, l, nr, t, n, ns, v) ==
  [kind |-> "case", tag |-> tag, asm |-> cf.asm, order |-> cf.order, phi |-> phi, lib |-> l, ns |-> ns, n |-> n,
   mins |-> [k \in DOMAIN cf.order |-> MineralOf(cf.order[k], nr, t, n, ns, v)]]

TexIds(l) == IF Thorough THEN 1..NR(l) ELSE {t \in 1..NR(l) : Mod(t, 5) = 1}
VolIds(n, t, ns) == IF Thorough THEN 1..NVol(n) ELSE {1 + Mod(t + ns, Len(VolsNorm(n))), NVol(n)}
\* grid cases are enumerated by Init from their seeds (a UNION of 5e4 records is quadratic in TLC)
IsGridCase(x) == \E cf \in Configs, l \in 1..NLib, n \in 1..3, ns \in 1..2 : \E t \in TexIds(l) :
                   \E phi \in PhiGrid(cf.asm), v \in VolIds(n, t, ns) : x = CaseOf("grid", cf, phi, l, NR(l), t, n, ns, v)
GridSeeds == {y \in Configs \X (1..NLib) \X (1..3) \X (1..2) \X (1..40) : y[5] \in TexIds(y[2])}
GridCount == FoldSet(LAMBDA y, acc : acc + Cardinality(PhiGrid(y[1].asm)) * Cardinality(VolIds(y[3], y[5], y[4])), 0, GridSeeds)
AlignedCases == {[kind |-> "case", tag |-> "aligned", asm |-> <<ph>>, order |-> <<ph>>, phi |-> <<QOne>>, lib |-> l,
                  ns |-> 1, n |-> 1,
                  mins |-> <<[phase |-> ph, n |-> 1, ori |-> << <<IdIdx>> >>, vol |-> << <<QOne>> >>]>>]
                   : ph \in {"olivine", "enstatite"}, l \in 1..NLib}

\* co-rotation instances: octahedral textures x denominator-3 frames and vice versa (built-ins: octahedral only)
CoRotPlans == {[l |-> 1, nr |-> 24, qs |-> IF Thorough THEN {2, 5, 9, 14, 18, 23} ELSE {5, 14, 23}],
               [l |-> 2, nr |-> 24, qs |-> IF Thorough THEN {25, 27, 30, 33, 36, 38, 39, 40} ELSE {26, 33, 40}],
               [l |-> 3, nr |-> 40, qs |-> IF Thorough THEN {2, 5, 9, 14, 18, 23} ELSE {3, 10, 19}]}
CoRotTex == IF Thorough THEN {1, 4, 12, 17, 29, 38} ELSE {2, 27}
IsCoRotState(x) == \E p \in CoRotPlans, cf \in Configs, t \in CoRotTex, n \in 1..2 : \E q \in p.qs :
   x = [kind |-> "corot", q |-> q,
        base |-> CaseOf("corot", cf, IF Len(cf.asm) = 1 THEN <<QOne>> ELSE <<<<1, 4>>, <<3, 4>>>>,
                        p.l, p.nr, t, n, 1, 1 + Mod(t, NVol(n)))]
CoRotCount == FoldSet(LAMBDA p, acc : acc + Cardinality(p.qs), 0, CoRotPlans) * Cardinality(Configs) * Cardinality(CoRotTex) * 2

\* basis x rotation instances for the invariance of the functionals
BasisRots == SmallRots \cup (IF Thorough THEN GenericRots(2) ELSE {})
BasisStates == {[kind |-> "basis", b |-> b, R |-> R] : b \in SymBasis, R \in BasisRots}

\* rejection table: one or two minerals, grain counts 2..3, 1..2 stored snapshots of each kind
Shape(ph) == {[phase |-> ph, n |-> n, nOri |-> a, nFrac |-> b] : n \in 2..3, a \in 1..2, b \in 1..2}
\* the table is quantified over the phase fractions too ("all phase fractions on the simplex" includes its vertices, where
\* one phase of the assemblage has no volume): Outcome is a function of the shapes alone, whatever the fractions
RejectPhis == {"interior", "first-only", "second-only", "almost-first-only"}
RejectStates == UNION {{[kind |-> "reject", asm |-> <<ph>>, phi |-> "one", shapes |-> <<x>>] : x \in Shape(ph)} : ph \in {"olivine", "enstatite"}}
                \cup UNION {{[kind |-> "reject", asm |-> a, phi |-> f, shapes |-> <<x, y>>] : x \in Shape(o[1]), y \in Shape(o[2]), f \in RejectPhis}
                            : a \in {OlEn, EnOl}, o \in {OlEn, EnOl}}

\* ------------------------------------------------------------------ terms for the generic evaluator
SymBasisSeq == SetToSeq(SymBasis)
ParamName(b) == "c" \o ToString(b[1]) \o ToString(b[2])
FuncTerm(F(_)) == <<"sum", [k \in 1..Len(SymBasisSeq) |->
                      <<"mul", <<"q", F(BasisMat6(SymBasisSeq[k]))>>, <<"param", ParamName(SymBasisSeq[k])>>>>]>>
\* modulus of the aggregate = SUM_ph phi_ph * modulus(C_ph)   (phi of an absent phase is 0)
LawTerm(name) == <<"sum", [p \in 1..2 |-> <<"mul", <<"param", "phi_" \o Phases[p]>>, <<"var", name \o "_" \o Phases[p]>>>>]>>
Tol == 1000                                            \* measures are in 1e-12 relative units: 1e-9 (DESIGN 6)
Tables == [rots |-> [r \in 1..40 |-> RotSeq[r]], identity |-> IdIdx,
           libs |-> [l \in 1..NLib |-> [name |-> Lib[l].name, scale |-> Lib[l].scale, rots |-> Lib[l].rots,
                                        olivine |-> M6Eval(Lib[l].ol), enstatite |-> M6Eval(Lib[l].en)]],
           KV |-> FuncTerm(KV), GV |-> FuncTerm(GV), lawKV |-> LawTerm("KV"), lawGV |-> LawTerm("GV"),
           vidx |-> [p \in I3 |-> [q \in I3 |-> VoigtIdx(p, q)]], vpair |-> [i \in I6 |-> VoigtPair(i)],
           tol |-> Tol, phases |-> Phases,
           counts |-> [cases |-> GridCount + Cardinality(AlignedCases), rejects |-> Cardinality(RejectStates),
                       basis |-> Cardinality(BasisStates), corot |-> CoRotCount]]

\* ------------------------------------------------------------------ measures recorded from the real code
TraceLog == IF Mode = "measures" THEN ndJsonDeserialize(IOEnv.TRACE_FILE) ELSE <<>>
\* an event: [sid, asm, two (two phases), norm (all volume vectors sum to 1), m : [clause -> integer measure]]
Required(e) == {"symmetry", "corotation", "aligned"}
               \cup (IF e.norm THEN {"moduliK", "moduliG"} ELSE {})
               \cup (IF e.two THEN {"phaseOrder", "mineralOrder"} ELSE {})

\* ------------------------------------------------------------------ history: tensors are read at call time
HistDepth == IF Thorough THEN 4 ELSE 3
Builtins == [olivine |-> 1, enstatite |-> 1]                \* what a new StiffnessTensors() / the default argument holds
\* real (GPa) average of a case whose minerals take their tensor from library tl[phase]; octahedral textures only
HistAverage(cs, tl) ==
  AverageWith(LAMBDA m, s, g : TScale(<<1, Lib[tl[cs.mins[m].phase]].scale>>,
                                      RotC[<<tl[cs.mins[m].phase], Ordinal(cs.mins[m].phase) + 1, cs.mins[m].ori[s][g]>>]),
              cs.mins, cs.asm, cs.phi)
RealTensor(l, ph) == M6Eval([i \in I6 |-> [j \in I6 |-> QNorm(SingleCrystalInt(l, ph)[i][j], Lib[l].scale)]])
HistCases == <<
  [asm |-> <<"olivine">>, order |-> <<"olivine">>, phi |-> <<QOne>>,
   mins |-> <<[phase |-> "olivine", n |-> 1, ori |-> << <<IdIdx>> >>, vol |-> << <<QOne>> >>]>>],
  [asm |-> <<"enstatite">>, order |-> <<"enstatite">>, phi |-> <<QOne>>,
   mins |-> <<[phase |-> "enstatite", n |-> 1, ori |-> << <<IdIdx>> >>, vol |-> << <<QOne>> >>]>>],
  [asm |-> EnOl, order |-> OlEn, phi |-> <<<<1, 4>>, <<3, 4>>>>,
   mins |-> <<[phase |-> "olivine", n |-> 2, ori |-> << <<3, 10>>, <<5, 17>> >>,
               vol |-> << <<QHalf, QHalf>>, <<<<1, 4>>, <<3, 4>>>> >>],
              [phase |-> "enstatite", n |-> 2, ori |-> << <<14, 21>>, <<8, 2>> >>,
               vol |-> << <<<<1, 4>>, <<3, 4>>>>, <<QHalf, QHalf>> >>]>>] >>
AlignedHistCase(k) == k \in {1, 2}
SetStep(ph, l) == [a |-> "set", inst |-> "shared", phase |-> ph, lib |-> l, k |-> 0]
AvgStep(inst, l, k) == [a |-> "avg", inst |-> inst, phase |-> "-", lib |-> l, k |-> k]
HistSteps == {SetStep(ph, l) : ph \in {"olivine", "enstatite"}, l \in 1..NLib}
             \cup {AvgStep("shared", 0, k) : k \in 1..3}
             \cup {AvgStep("default", 0, k) : k \in {1, 3}}
             \cup {AvgStep("fresh", 2, 3)}
\* the library an instance holds when the call is made
TensorsOf(cur, st) == CASE st.inst = "shared" -> cur
                        [] st.inst = "default" -> Builtins
                        [] OTHER -> [olivine |-> st.lib, enstatite |-> st.lib]
Apply(h, st) ==
  IF st.a = "set"
  THEN [h EXCEPT !.cur[st.phase] = st.lib,
                 !.log = Append(@, [a |-> "set", inst |-> st.inst, phase |-> st.phase, lib |-> st.lib, k |-> 0, avg |-> <<>>])]
  ELSE [h EXCEPT !.log = Append(@, [a |-> "avg", inst |-> st.inst, phase |-> st.phase, lib |-> st.lib, k |-> st.k,
                                    avg |-> HistAverage(HistCases[st.k], TensorsOf(h.cur, st))])]
HistEmpty == [kind |-> "hist", script |-> 0, cur |-> Builtins, log |-> <<>>]
Scripts == <<
  <<AvgStep("shared", 0, 1), SetStep("olivine", 2), AvgStep("shared", 0, 1), SetStep("olivine", 3), AvgStep("shared", 0, 1),
    SetStep("olivine", 1), AvgStep("shared", 0, 1)>>,
  <<AvgStep("shared", 0, 3), SetStep("enstatite", 2), SetStep("olivine", 2), AvgStep("shared", 0, 3), AvgStep("default", 0, 3),
    SetStep("enstatite", 3), AvgStep("shared", 0, 3), AvgStep("default", 0, 3), SetStep("olivine", 1), SetStep("enstatite", 1),
    AvgStep("shared", 0, 3)>>,
  <<AvgStep("default", 0, 1), AvgStep("fresh", 2, 3), AvgStep("default", 0, 1), AvgStep("shared", 0, 2), SetStep("enstatite", 3),
    AvgStep("shared", 0, 2), AvgStep("default", 0, 3), AvgStep("fresh", 2, 3), SetStep("enstatite", 2), AvgStep("shared", 0, 3)>> >>
ScriptState(i) == [FoldLeft(Apply, HistEmpty, Scripts[i]) EXCEPT !.script = i]
\* the library of phase ph according to the LOG alone: the last assignment before position n, else the built-ins
LibAt(log, n, ph) == LET S == {i \in 1..(n - 1) : log[i].a = "set" /\ log[i].phase = ph}
                     IN IF S = {} THEN 1 ELSE log[Max(S)].lib
LoggedTensors(log, n) == TensorsOf([olivine |-> LibAt(log, n, "olivine"), enstatite |-> LibAt(log, n, "enstatite")], log[n])

\* ------------------------------------------------------------------ behaviour: one-shot evaluation
Init == /\ \/ Mode = "generate" /\ \/ IsGridCase(c)
                                   \/ c \in AlignedCases
                                   \/ IsCoRotState(c)
                                   \/ c \in BasisStates
                                   \/ c \in RejectStates
                                   \/ c = [kind |-> "tables"]
           \/ Mode = "negative" /\ c \in BasisStates
           \/ Mode = "measures" /\ c \in {[kind |-> "measure", i |-> k] : k \in 1..Len(TraceLog)}
           \/ Mode = "history" /\ (c = HistEmpty \/ \E i \in DOMAIN Scripts : c = ScriptState(i))
        /\ res = [done |-> (Mode = "history")]

Evaluate(x) ==
  CASE x.kind = "case" -> [done |-> TRUE, avg |-> ById(x), dev |-> ByPos(x)]
    [] x.kind = "corot" ->
         LET T == LibTensors(x.base.lib)
             Qm == RotSeq[x.q]
             direct == Average(Concrete(x.base.mins, MId), x.base.asm, x.base.phi, T)
         IN [done |-> TRUE, direct |-> direct, memo |-> ById(x.base),
             devDirect |-> AverageByPosition(Concrete(x.base.mins, MId), x.base.asm, x.base.phi, T), devMemo |-> ByPos(x.base),
             lhs |-> Average(Concrete(x.base.mins, Qm), x.base.asm, x.base.phi, T),
             rhs |-> [s \in DOMAIN direct |-> M6Eval(ToVoigt(TRotate(ToTensor(direct[s]), Qm)))]]
    [] x.kind = "basis" -> [done |-> TRUE, rot |-> M6Eval(ToVoigt(TRotate(ToTensor(BasisMat6(x.b)), x.R)))]
    [] x.kind = "reject" -> [done |-> TRUE, outcome |-> Outcome(x.shapes), clause |-> RejectClause(x.shapes)]
    [] OTHER -> [done |-> TRUE]
HistNext == /\ Mode = "history" /\ c.kind = "hist" /\ c.script = 0 /\ Len(c.log) < HistDepth
            /\ \E st \in HistSteps : c' = Apply(c, st)
            /\ UNCHANGED res
Next == \/ ~res.done /\ res' = Evaluate(c) /\ UNCHANGED c
        \/ HistNext
Spec == Init /\ [][Next]_vars

\* ------------------------------------------------------------------ lemmas
Done(k) == res.done /\ c.kind = k
SymmetricResult == Done("case") => \A s \in DOMAIN res.avg : IsSym6(res.avg[s])
VolumesNormalised(cs) == \A m \in DOMAIN cs.mins : \A s \in 1..cs.ns : QSumSeq(cs.mins[m].vol[s]) = QOne
Mixture(F(_), cs) == LET T == LibTensors(cs.lib) IN
  FoldSet(LAMBDA i, acc : QAdd(QMul(cs.phi[i], F(SingleCrystal(T, cs.asm[i]))), acc), QZ, DOMAIN cs.asm)
ModuliOfAverage == (Done("case") /\ VolumesNormalised(c)) =>
                     \A s \in DOMAIN res.avg : /\ KV(res.avg[s]) = Mixture(KV, c)
                                               /\ GV(res.avg[s]) = Mixture(GV, c)
\* lumping: the aggregate in which every grain is present as two copies of half its volume has the same average (the
\* average is linear in the grain volumes).  By induction, an aggregate of ANY grain count built from copies of the case's
\* grains with the volumes shared out has the case's average: the size sweep of the harness (C10.size_sweep) applies this
\* at every grain count up to its bound.
SplitCase(cs) == [cs EXCEPT !.mins = [m \in DOMAIN cs.mins |->
                     [cs.mins[m] EXCEPT !.n = 2 * @,
                                        !.ori = [s \in DOMAIN @ |-> @[s] \o @[s]],
                                        !.vol = [s \in DOMAIN @ |-> [g \in DOMAIN @[s] |-> QMul(QHalf, @[s][g])] \o [g \in DOMAIN @[s] |-> QMul(QHalf, @[s][g])]]]]]
Lumping == Done("case") => ById(SplitCase(c)) = res.avg
AlignedReturnsC == (Done("case") /\ c.tag = "aligned") =>
                     res.avg = <<SingleCrystal(LibTensors(c.lib), c.asm[1])>>
OrdinalOrdered(asm) == \A i \in DOMAIN asm : Ordinal(asm[i]) = i - 1
DeviationLocus == Done("case") => (OrdinalOrdered(c.asm) => res.dev = res.avg)
BasisModuliK == Done("basis") => KV(res.rot) = KV(BasisMat6(c.b))
BasisModuliG == Done("basis") => GV(res.rot) = GV(BasisMat6(c.b))
BasisSymmetric == Done("basis") => IsSym6(res.rot)
NegFunctionalInvariant == Done("basis") => KWrong(res.rot) = KWrong(BasisMat6(c.b))
CoRotation == Done("corot") => res.lhs = res.rhs
MemoAgrees == Done("corot") => (res.direct = res.memo /\ res.devDirect = res.devMemo)
RejectionOrderFree == Done("reject") => res.outcome = Outcome(Reverse(c.shapes))
RejectionSane == Done("reject") =>
   (res.outcome = "ok" <=> \A m \in DOMAIN c.shapes : /\ c.shapes[m].n = c.shapes[1].n
                                                      /\ c.shapes[m].nOri = c.shapes[1].nOri
                                                      /\ c.shapes[m].nFrac = c.shapes[m].nOri)

\* ---- history lemmas (the log is append-only, so checking the newest entry in every state checks all entries)
IsHist == Mode = "history" /\ c.kind = "hist"
LastIsAvg == Len(c.log) > 0 /\ c.log[Len(c.log)].a = "avg"
HistCurrentIsLastSet == IsHist => \A ph \in {"olivine", "enstatite"} : c.cur[ph] = LibAt(c.log, Len(c.log) + 1, ph)
HistCallTime == (IsHist /\ LastIsAvg) =>
   LET n == Len(c.log) IN c.log[n].avg = HistAverage(HistCases[c.log[n].k], LoggedTensors(c.log, n))
HistAlignedReturnsCurrent == (IsHist /\ LastIsAvg /\ AlignedHistCase(c.log[Len(c.log)].k)) =>
   LET n == Len(c.log)
       ph == HistCases[c.log[n].k].asm[1]
   IN c.log[n].avg = <<RealTensor(LoggedTensors(c.log, n)[ph], ph)>>
HistDefaultFixed == (IsHist /\ LastIsAvg /\ c.log[Len(c.log)].inst = "default") =>
   c.log[Len(c.log)].avg = HistAverage(HistCases[c.log[Len(c.log)].k], Builtins)
HistSymmetric == (IsHist /\ LastIsAvg) => \A s \in DOMAIN c.log[Len(c.log)].avg : IsSym6(c.log[Len(c.log)].avg[s])
HistTables == [cases |-> HistCases, depth |-> HistDepth, scripts |-> Len(Scripts)]
HistEmit == IsHist =>
   /\ (c.log = <<>>) => PrintT(<<"HTABLES", ToJson(HistTables)>>)
   /\ (LastIsAvg /\ (c.script > 0 \/ Len(c.log) = HistDepth)) => PrintT(<<"HIST", ToJson([script |-> c.script, log |-> c.log])>>)

\* ------------------------------------------------------------------ emission and verdicts
Emit ==
  CASE Done("case") -> PrintT(<<"CASE", ToJson([tag |-> c.tag, asm |-> c.asm, order |-> c.order, phi |-> c.phi,
                                               lib |-> c.lib, ns |-> c.ns, n |-> c.n, mins |-> c.mins,
                                               normalised |-> VolumesNormalised(c),
                                               avg |-> res.avg,
                                               dev |-> IF res.dev = res.avg THEN <<>> ELSE res.dev])>>)
    [] Done("reject") -> PrintT(<<"REJ", ToJson([asm |-> c.asm, phi |-> c.phi, shapes |-> c.shapes, outcome |-> res.outcome,
                                                clause |-> res.clause])>>)
    [] Done("tables") -> PrintT(<<"TABLES", ToJson(Tables)>>)
    [] OTHER -> TRUE
MeasureVerdict ==
  Done("measure") =>
    LET e == TraceLog[c.i] IN
      \A k \in Required(e) :
         IF k \in DOMAIN e.m THEN (e.m[k] <= Tol \/ PrintT(<<"REJECT", e.sid, k, "exceeds">>))
         ELSE PrintT(<<"REJECT", e.sid, k, "missing">>)
=============================================================================
