SPECIFICATION Spec
CONSTANTS
  Pools = {"proc", "thread", "sched"}
  Sizes = {1, 2, 3, 4}
  Avail = {1, 2, 3, 16}
  MaxOps = 7
INVARIANT EmitAtEnd
CHECK_DEADLOCK FALSE
