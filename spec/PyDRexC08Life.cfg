SPECIFICATION C08LifeSpec
CONSTANTS
  Minerals = {"a", "b", "c", "d"}
  Files = {"f1"}
  Postfixes = {}
  Configs = {}
  Seeds = {}
  Textures = {}
  Flows = {"ss_xz"}
  Pars <- C08OnePar
  Callbacks = {}
  MaxUpd = 2
  MaxOps = 3
INVARIANT LifeNonInterference
INVARIANT LifeTwins
INVARIANT FPathLen
PROPERTY FailureAtomic
CHECK_DEADLOCK FALSE
