INIT Init
NEXT Next
CHECK_DEADLOCK FALSE
CONSTANT UpperSet <- T3
CONSTANT LamSet <- LamAll
CONSTANT PolarQuats <- PolarQuatsAll
CONSTANT StretchSet <- StretchAll
INVARIANT SimilarityLemma
INVARIANT InvariantsLemma
INVARIANT CayleyHamilton
INVARIANT PolarLemma
INVARIANT SharedRotation
INVARIANT StretchSetLemma
INVARIANT Emit
