INIT Init
NEXT Next
CHECK_DEADLOCK FALSE
CONSTANT UpperSet <- UpperThorough
CONSTANT LamSet <- LamAll
CONSTANT PolarQuats <- PolarQuatsAll
CONSTANT StretchSet <- StretchThorough
INVARIANT SimilarityLemma
INVARIANT InvariantsLemma
INVARIANT CayleyHamilton
INVARIANT PolarLemma
INVARIANT SharedRotation
INVARIANT StretchSetLemma
INVARIANT Emit
