INIT Init
NEXT Next
CONSTANTS
  NSet = {2, 3, 4, 5}
  D = 12
  Chis <- ChiGrid
  Family = "grid"
  Strict = TRUE
INVARIANT LTypes
INVARIANT LSumOne
INVARIANT LSelect
INVARIANT LFloor
INVARIANT LRatio
INVARIANT LSBound
INVARIANT LMinBound
INVARIANT LOrder
INVARIANT LChiZero
INVARIANT LReapply
INVARIANT Emit
CHECK_DEADLOCK FALSE
