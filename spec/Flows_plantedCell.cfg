INIT Init
NEXT Next
CONSTANT Tier = "quick"
CONSTANT Plant = "cell-sign"
INVARIANT OffPlaneZero
INVARIANT ShearExact
INVARIANT CellTraceFree
INVARIANT CornerExact
INVARIANT StrainSpectrum
CHECK_DEADLOCK FALSE
