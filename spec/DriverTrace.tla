---------------------------- MODULE DriverTrace ----------------------------
(***************************************************************************)
(* Layer C for Driver.tla: validates pathline-driven runs recorded from    *)
(* the real library.  One ndjson line per public call (get_pathline,       *)
(* update_all, the three diagnostics as one line, save-all, reload-all,    *)
(* continue); many runs per file (field tid).  Every line is consumed by   *)
(* the Driver action it names with the logged facts bound to the action's  *)
(* parameters; on top, the numerical laws of the listed properties are     *)
(* evaluated on integer measures with the machine's OWN step count and     *)
(* accumulated strain:                                                     *)
(*   pathline   nts = regular_steps + 1, strictly increasing, ends at 0,   *)
(*              positions inside the box, run strain <= 1.25 max (C18)     *)
(*   step       every mineral holds base + k + 1 snapshots of each kind,   *)
(*              newest snapshot valid within budget(N, strain) (C01),      *)
(*              det F = exp(int tr L) and F = closed form within the       *)
(*              budget (C06)                                               *)
(*   diagnose   one value per stored snapshot (C10, C14, C15 shapes)       *)
(*   reload     reloaded minerals equal the live ones (C17)                *)
(* A line no action explains is recorded with the failing clause and the   *)
(* logged state is adopted so that the rest of the file is still checked.  *)
(***************************************************************************)
EXTENDS Driver, IOUtils

TraceLog == ndJsonDeserialize(IOEnv.TRACE_FILE)
N == Len(TraceLog)

VARIABLES l,        \* next line
          strain,   \* accumulated strain of the minerals' whole life, 1e-6 units
          rstrain,  \* strain accumulated along the current pathline, 1e-6 units
          maxs,     \* max_strain requested for the current pathline, 1e-6 units
          nupd,     \* updates in the minerals' whole life
          bad
tvars == <<dvars, l, strain, rstrain, maxs, nupd, bad>>

Ev == TraceLog[l]
NewTrace == IF l = 1 THEN TRUE ELSE TraceLog[l].tid # TraceLog[l - 1].tid
Budget(n, e6) == 5000000 + 1000000 * n + 2 * e6      \* 1e-9 units (5e-3 + 1e-3 (N + 2 strain))

\* ---------------------------------------------------------------- bound actions
PathLaw == IF Ev.nts # Ev.steps + 1 THEN "pathline-timestamp-count"
           ELSE IF ~Ev.mono THEN "pathline-timestamps-not-increasing"
           ELSE IF ~Ev.tend0 THEN "pathline-does-not-end-at-final-location-at-t0"
           ELSE IF ~Ev.inside THEN "pathline-leaves-the-box"
           ELSE "ok"
TTraceOk == /\ Ev.ev = "Trace" /\ Ev.exc = "None" /\ TraceOk(Ev.steps) /\ PathLaw = "ok"
            /\ rstrain' = 0 /\ maxs' = Ev.maxs_e6 /\ UNCHANGED <<strain, nupd>>
TTraceFail == /\ Ev.ev = "Trace" /\ Ev.exc = "ValueError" /\ TraceFail /\ UNCHANGED <<strain, rstrain, maxs, nupd>>

Lens(m) == Ev.lens[m]
\* the laws of one accepted step, evaluated against the post-state StepOk produces (kp, np); names the failing clause
StepLawOn(kp, np) ==
    LET e6 == strain + Ev.dstrain_e6
        n  == nupd + 1
        judge(m) == LET v == Ev.v[m] IN
            IF Lens(m)[1] # np[m] \/ Lens(m)[2] # np[m] THEN "not-one-snapshot-per-step"
            ELSE IF ~v.shapeOK THEN "snapshot-shape"
            ELSE IF ~v.finite THEN "snapshot-not-finite"
            ELSE IF v.minFneg THEN "negative-volume"
            ELSE IF v.sumDev_e15 > 1000 THEN "volumes-do-not-sum-to-1"
            ELSE IF ~v.absLe1 THEN "orientation-entry-outside-unit-interval"
            ELSE IF ~v.detPos THEN "orientation-left-handed"
            ELSE IF v.ortho_e9 > Budget(n, e6) THEN "orthonormality-beyond-budget"
            ELSE "ok"
        badm == {m \in Mins : judge(m) # "ok"} IN
    IF badm # {} THEN judge(CHOOSE m \in badm : TRUE)
    ELSE IF Ev.k # kp THEN "step-index"
    ELSE IF Ev.detdev_e9 > Budget(n, e6) THEN "detF-differs-from-exp-int-trL"
    ELSE IF Ev.frel_e9 >= 0 /\ Ev.frel_e9 > Budget(n, e6) THEN "F-differs-from-closed-form"
    ELSE IF kp = nts - 1 /\ 4 * (rstrain + Ev.dstrain_e6) > 5 * maxs + 4000 THEN "run-strain-exceeds-1.25-max"
    ELSE "ok"
StepLaw == StepLawOn(k + 1, [m \in Mins |-> nsnap[m] + 1])
TStepOk == /\ Ev.ev = "Step" /\ Ev.exc = "None" /\ StepOk /\ StepLaw = "ok"
           /\ strain' = strain + Ev.dstrain_e6 /\ rstrain' = rstrain + Ev.dstrain_e6 /\ nupd' = nupd + 1 /\ maxs' = maxs
TStepRejected == /\ Ev.ev = "Step" /\ Ev.exc = "ValueError"
                 /\ \E j \in 1..Len(MineralSeq) : StepRejected(j) /\ \A m \in Mins : Lens(m) = <<nsnap'[m], nsnap'[m]>>
                 /\ UNCHANGED <<strain, rstrain, maxs, nupd>>
TDiag == /\ Ev.ev = "Diag" /\ Ev.exc = "None" /\ Diagnose(Ev.nv, Ev.nm, Ev.nr) /\ Ev.sym /\ Ev.resOK
         /\ UNCHANGED <<strain, rstrain, maxs, nupd>>
TSave == /\ Ev.ev = "Save" /\ Ev.exc = "None" /\ SaveAll /\ UNCHANGED <<strain, rstrain, maxs, nupd>>
TReload == /\ Ev.ev = "Reload" /\ Ev.exc = "None" /\ Reload(Ev.equal) /\ UNCHANGED <<strain, rstrain, maxs, nupd>>
TContinue == /\ Ev.ev = "Continue" /\ Continue /\ UNCHANGED <<strain, rstrain, maxs, nupd>>

Bound == TTraceOk \/ TTraceFail \/ TStepOk \/ TStepRejected \/ TDiag \/ TSave \/ TReload \/ TContinue

\* ---------------------------------------------------------------- diagnosis
Diagnosis ==
    IF Ev.ev = "Trace" THEN (IF Ev.exc # "None" THEN "pathline-raised-" \o Ev.exc
                             ELSE IF stage # "idle" THEN "pathline-out-of-order" ELSE PathLaw)
    ELSE IF Ev.ev = "Step" THEN
        (IF stage \notin {"traced", "running"} \/ k >= nts - 1 THEN "step-out-of-order"
         ELSE IF Ev.exc # "None" THEN "step-raised-" \o Ev.exc
         ELSE "step-law")
    ELSE IF Ev.ev = "Diag" THEN (IF Ev.exc # "None" THEN "diagnostics-raised-" \o Ev.exc
                                 ELSE IF stage # "integrated" THEN "diagnostics-out-of-order"
                                 ELSE IF ~Ev.sym \/ ~Ev.resOK THEN "diagnostics-malformed"
                                 ELSE "diagnostics-not-one-value-per-snapshot")
    ELSE IF Ev.ev = "Reload" THEN (IF Ev.exc # "None" THEN "reload-raised-" \o Ev.exc ELSE "reloaded-minerals-differ")
    ELSE IF Ev.ev = "Save" THEN "save-raised-" \o Ev.exc
    ELSE "no-driver-action-" \o Ev.ev

\* the step law names its own clause
Clause == IF Diagnosis = "step-law" THEN StepLaw ELSE Diagnosis

Adopt == /\ ~ENABLED Bound
         /\ bad' = Append(bad, <<Ev.tid, l, Clause>>)
         /\ IF Ev.ev = "Step" /\ Ev.exc = "None" /\ stage \in {"traced", "running"} /\ k < nts - 1
            THEN /\ k' = k + 1 /\ nsnap' = [m \in Mins |-> Lens(m)[1]]
                 /\ stage' = IF k + 1 = nts - 1 THEN "integrated" ELSE "running"
                 /\ strain' = strain + Ev.dstrain_e6 /\ rstrain' = rstrain + Ev.dstrain_e6 /\ nupd' = nupd + 1
                 /\ UNCHANGED <<nts, diag, base, runs, err, maxs>>
            ELSE IF Ev.ev = "Trace" /\ Ev.exc = "None" /\ stage = "idle"
            THEN /\ stage' = "traced" /\ nts' = Ev.nts /\ k' = 0 /\ runs' = runs + 1 /\ rstrain' = 0 /\ maxs' = Ev.maxs_e6
                 /\ UNCHANGED <<nsnap, diag, base, err, strain, nupd>>
            ELSE IF Ev.ev = "Diag" /\ stage = "integrated"
            THEN /\ stage' = "diagnosed" /\ diag' = <<base + nts, base + nts, base + nts>>
                 /\ UNCHANGED <<nts, k, nsnap, base, runs, err, strain, rstrain, maxs, nupd>>
            ELSE IF Ev.ev = "Reload" /\ stage = "saved"
            THEN /\ stage' = "reloaded" /\ UNCHANGED <<nts, k, nsnap, diag, base, runs, err, strain, rstrain, maxs, nupd>>
            ELSE /\ stage' = "failed" /\ UNCHANGED <<nts, k, nsnap, diag, base, runs, err, strain, rstrain, maxs, nupd>>

\* ---------------------------------------------------------------- trace machine
TInit == DInit /\ l = 1 /\ strain = 0 /\ rstrain = 0 /\ maxs = 0 /\ nupd = 0 /\ bad = <<>>
Fresh == stage = "idle" /\ runs = 0 /\ nupd = 0
NeedsReset == l > 1 /\ l <= N /\ NewTrace /\ ~Fresh
Reset == /\ NeedsReset
         /\ stage' = "idle" /\ nts' = 0 /\ k' = 0 /\ nsnap' = [m \in Mins |-> 1] /\ diag' = <<>> /\ base' = 0 /\ runs' = 0
         /\ err' = "None" /\ strain' = 0 /\ rstrain' = 0 /\ maxs' = 0 /\ nupd' = 0 /\ UNCHANGED <<l, bad>>
\* after a failed run the remaining lines of the same trace are skipped (there are none by construction)
Consume == /\ l <= N /\ ~NeedsReset /\ l' = l + 1
           /\ \/ (Bound /\ bad' = bad)
              \/ Adopt
TNext == Reset \/ Consume
TSpec == TInit /\ [][TNext]_tvars

Report == /\ (IF bad # <<>> /\ l > 1 /\ bad[Len(bad)][2] = l - 1
              THEN PrintT(<<"REJECT", SelectSeq(bad, LAMBDA b : b[2] = l - 1)>>) ELSE TRUE)
          /\ (IF l = N + 1 THEN PrintT(<<"DONE", N, Len(bad)>>) ELSE TRUE)
\* the machine's invariants are evaluated on every consumed line as well
=============================================================================
