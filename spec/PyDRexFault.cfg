SPECIFICATION FaultSpec
CONSTANTS
  Minerals = {a, b}
  Files = {f1}
  Postfixes = {}
  Configs <- FaultConfigs
  Seeds = {1}
  Textures = {"random"}
  Flows = {"ss_xz"}
  Pars <- FlowPars
  Callbacks = {}
  MaxUpd = 2
  MaxOps = 4
VIEW View
INVARIANT UnequalNeverAveraged
INVARIANT ShapeOK
PROPERTY AppendOnly
PROPERTY RefinesLaws
PROPERTY FailureAtomic
CHECK_DEADLOCK FALSE
