SPECIFICATION C17Spec
CONSTANTS
  Minerals = {a, b, c}
  Files = {f1}
  Postfixes = {"1", "10", "q"}
  Configs <- C17Configs
  Seeds = {1}
  Textures = {"random"}
  Flows = {"ss_xz"}
  Pars <- C17Pars
  Callbacks = {}
  FixedSavers = TRUE
  MaxUpd = 2
  MaxOps = 7
VIEW View
INVARIANT ShapeOK
INVARIANT DiskWellFormed
PROPERTY AppendOnly
PROPERTY RefinesLaws
PROPERTY FailureAtomic
PROPERTY RoundTrip
PROPERTY PostfixIsolation
CHECK_DEADLOCK FALSE
