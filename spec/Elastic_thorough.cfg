\* C12 generator + lemmas, thorough tier (larger orthorhombic family)
INIT Init
NEXT Next
CONSTANTS
  Tier = "thorough"
  Mode = "generate"
INVARIANT LibraryValid
INVARIANT LibraryCount
INVARIANT IsoLemma
INVARIANT ChainLemma
INVARIANT FunctionalLemma
INVARIANT RotatedSymmetric
INVARIANT FrameK
INVARIANT FrameG
INVARIANT FrameAniso
INVARIANT ContractionsCoRotate
INVARIANT EigenAxes
INVARIANT Emit
CHECK_DEADLOCK FALSE
