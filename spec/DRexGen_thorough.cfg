SPECIFICATION Spec
CONSTANTS
  RotB = 2
  NGen = 0
  NOcta = 0
  QCount = 24
  Multi = TRUE
INVARIANT LemmasHold
INVARIANT FrameLemma
INVARIANT Emit
CHECK_DEADLOCK FALSE
