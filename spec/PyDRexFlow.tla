---- MODULE PyDRexFlow ----
(* The library's documented workflow as a Layer-B configuration: build the minerals of an        *)
(* aggregate, advance them with bulk updates (some refused part-way), hand the returned            *)
(* deformation gradient over, update single minerals, pass bad arguments, and post-process with     *)
(* voigt_averages at any point.  Behaviours are simulated by TLC and replayed on real objects.      *)
EXTENDS PyDRex
FlowConfigs == { [phase |-> 0, fabric |-> 0, regime |-> 4, n |-> 6], [phase |-> 1, fabric |-> 5, regime |-> 4, n |-> 6],
                 [phase |-> 0, fabric |-> 3, regime |-> 6, n |-> 6], [phase |-> 0, fabric |-> 1, regime |-> 3, n |-> 6],
                 [phase |-> 1, fabric |-> 5, regime |-> 4, n |-> 4] }
FlowPars == { [M |-> 125, chi |-> 3, asm |-> <<0, 1>>, phiOl |-> 7, x |-> <<5, 0>>],
              [M |-> 50, chi |-> 0, asm |-> <<1, 0>>, phiOl |-> 3, x |-> <<5, 0>>],
              [M |-> 125, chi |-> 3, asm |-> <<0>>, phiOl |-> 10, x |-> <<5, 0>>] }
FSeqs == Pairs \cup {<<m>> : m \in Minerals}
FlowNext == \/ \E m \in Minerals :
                 \/ \E c \in Configs, s \in Seeds, tx \in Textures : Create(m, c, s, tx, InitO(s, c.n, tx), InitF(c.n, tx))
                 \/ UpdNext(m)
                 \/ \E w \in {"velocity_gradient", "position"} : UpdateBadArgs(m, w)
            \/ UpdAllNext
            \/ \E ms \in FSeqs, par \in Pars : VoigtOk(ms, par) \/ VoigtRejected(ms, par)
FlowSpec == Init /\ [][FlowNext]_vars
\* the same workflow with faulting client callables (C07): a callable handed over by the client raises at the
\* first evaluation, part-way through the interval or just before its end, in single and in bulk updates
\* the fault configurations add the two viscosity-bound regimes (no texture-forming mechanism: whatever shortcut an
\* implementation takes there, a failing call still leaves nothing behind)
FaultConfigs == FlowConfigs \cup { [phase |-> 0, fabric |-> 0, regime |-> 0, n |-> 6], [phase |-> 1, fabric |-> 5, regime |-> 7, n |-> 6],
                                   [phase |-> 0, fabric |-> 2, regime |-> 7, n |-> 4] }
FaultNext == \/ FlowNext
             \/ \E m \in Minerals, fl \in Flows, par \in Pars, fc \in FaultCodes : UpdateFaulted(m, fl, par, fc)
             \/ \E ms \in Pairs, fl \in Flows, par \in Pars, fc \in FaultCodes : UpdateAllFaulted(ms, fl, par, fc)
FaultSpec == Init /\ [][FaultNext]_vars
\* composition lemma: minerals with unequal snapshot counts (e.g. after a bulk update refused part-way)
\* can never be averaged together, and VoigtOk / VoigtRejected partition the live sequences
UnequalNeverAveraged == \A ms \in Pairs, par \in Pars :
    (AllLive(ms) /\ Len(hist[ms[1]]) # Len(hist[ms[2]])) => ~VoigtAccepts(ms, par)
====
