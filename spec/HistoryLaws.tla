----------------------------- MODULE HistoryLaws -----------------------------
(***************************************************************************)
(* The history and persistence laws of the Layer-B machine (PyDRex.tla),   *)
(* proved for UNBOUNDED parameters with the TLA+ proof system: any set of  *)
(* minerals, archives and postfix keys, any snapshot contents, histories   *)
(* of any length, behaviours of any length.                                *)
(*                                                                         *)
(* The module is the abstraction of PyDRex.tla that keeps exactly the      *)
(* variables the laws talk about (hist, disk, err); guards that only       *)
(* decide WHETHER a call is accepted (dispatch classes, callbacks, shapes) *)
(* are abstracted to nondeterminism, so everything proved here holds for   *)
(* every such guard.  The link to PyDRex.tla is checked by TLC, not        *)
(* assumed: PyDRexC01 / PyDRexC17 declare  Laws == INSTANCE HistoryLaws    *)
(* under the mapping below and check the refinement  PROPERTY Laws!Spec    *)
(* (every step of the concrete machine is a step of this one) over all     *)
(* reachable states of their bounded configurations.                       *)
(*                                                                         *)
(* Actions (concrete actions they abstract):                               *)
(*   ACreate    Create, FromFile (a new handle receives a first history)   *)
(*   AAdvance   UpdateOk (S = {m}), UpdateAllOk (S = the minerals passed), *)
(*              UpdateAllPartial (S = those before the refused one, with   *)
(*              an error outcome - the named deviation)                    *)
(*   ARefuse    UpdateRejected, UpdatePhaseAbsent, UpdateBadArgs,          *)
(*              SaveCorrupt, LoadBadName, VoigtRejected                    *)
(*   ANoop      VoigtOk (a successful call that changes nothing)           *)
(*   ASave      SavePostfix (Keep = TRUE), SaveWholeFile (Keep = FALSE)    *)
(*   ALoad      Load, FromFile                                             *)
(*                                                                         *)
(* Theorems (all proved in HistoryLawsProofs.tla, which EXTENDS this       *)
(* module; kept separate so that TLC can INSTANCE the definitions without *)
(* the proof library on its path):                                         *)
(*   TypeInvariant, LiveInvariant   inductive invariants                   *)
(*   AppendOnly     a history changes only by one appended snapshot, or by *)
(*                  being replaced with a saved history (C01)              *)
(*   FailureAtomic  a failed call leaves the disk untouched and every      *)
(*                  history either untouched or one snapshot longer (the   *)
(*                  latter only in the partial bulk update) (C07)          *)
(*   RefusalAtomic  a refused single call changes nothing at all (C07)     *)
(*   RoundTrip      what a load puts into a mineral is exactly a record on *)
(*                  the disk (C17)                                         *)
(*   SaveIsolation  a postfix save changes no other entry of any archive   *)
(*                  (C17)                                                  *)
(*   DiskRecordsNonEmpty  every stored record holds at least one snapshot  *)
(***************************************************************************)
EXTENDS Naturals, Sequences, FiniteSets

CONSTANTS Minerals, Files, KeySet, Snap
VARIABLES hist,    \* [Minerals -> Seq(Snap)]; <<>> = handle not in use
          disk,    \* [Files -> [subset of KeySet -> Seq(Snap)]]
          err      \* outcome class of the last call
vars == <<hist, disk, err>>

Errs == {"ValueError", "RuntimeError"}
Records == UNION {[K -> Seq(Snap)] : K \in SUBSET KeySet}
Prefix(s, t) == Len(s) <= Len(t) /\ \A i \in 1..Len(s) : s[i] = t[i]
Extend(d, k, v) == [x \in (DOMAIN d) \cup {k} |-> IF x = k THEN v ELSE d[x]]
Only(k, v) == [x \in {k} |-> v]

TypeOK == /\ hist \in [Minerals -> Seq(Snap)]
          /\ disk \in [Files -> Records]
          /\ err \in {"None"} \cup Errs
Init == /\ hist = [m \in Minerals |-> <<>>]
        /\ disk = [f \in Files |-> [x \in {} |-> <<>>]]
        /\ err = "None"

ACreate(m, x) == /\ hist[m] = <<>> /\ hist' = [hist EXCEPT ![m] = <<x>>]
                 /\ err' = "None" /\ UNCHANGED disk
AAdvance(S, news, e) == /\ \A m \in S : hist[m] # <<>>
                        /\ hist' = [m \in Minerals |-> IF m \in S THEN Append(hist[m], news[m]) ELSE hist[m]]
                        /\ err' = e /\ UNCHANGED disk
ARefuse(e) == e \in Errs /\ err' = e /\ UNCHANGED <<hist, disk>>
ANoop == err' = "None" /\ UNCHANGED <<hist, disk>>
ASave(m, f, k, keep) == /\ hist[m] # <<>>
                        /\ disk' = [disk EXCEPT ![f] = IF keep THEN Extend(disk[f], k, hist[m]) ELSE Only(k, hist[m])]
                        /\ err' = "None" /\ UNCHANGED hist
ALoad(m, f, k) == /\ k \in DOMAIN disk[f]
                  /\ hist' = [hist EXCEPT ![m] = disk[f][k]]
                  /\ err' = "None" /\ UNCHANGED disk

Next == \/ \E m \in Minerals, x \in Snap : ACreate(m, x)
        \/ \E S \in SUBSET Minerals, news \in [Minerals -> Snap], e \in {"None"} \cup Errs : AAdvance(S, news, e)
        \/ \E e \in Errs : ARefuse(e)
        \/ ANoop
        \/ \E m \in Minerals, f \in Files, k \in KeySet, keep \in BOOLEAN : ASave(m, f, k, keep)
        \/ \E m \in Minerals, f \in Files, k \in KeySet : ALoad(m, f, k)
Spec == Init /\ [][Next]_vars

\* ---------------------------------------------------------------- the laws
OnDisk(h) == \E f \in Files : \E k \in DOMAIN disk[f] : disk[f][k] = h
OneMore(s, t) == Prefix(s, t) /\ Len(t) = Len(s) + 1
AppendOnlyStep == \A m \in Minerals : hist'[m] # hist[m] => OneMore(hist[m], hist'[m]) \/ (disk' = disk /\ OnDisk(hist'[m]))
FailureAtomicStep == err' # "None" => /\ disk' = disk
                                       /\ \A m \in Minerals : hist'[m] = hist[m] \/ OneMore(hist[m], hist'[m])
RoundTripStep == \A m \in Minerals :
                    (disk' = disk /\ err' = "None" /\ hist'[m] # hist[m] /\ ~OneMore(hist[m], hist'[m])) => OnDisk(hist'[m])
SaveIsolationStep == \A f \in Files : \A k \in DOMAIN disk[f] :
                        (k \in DOMAIN disk'[f] /\ (DOMAIN disk[f]) \subseteq (DOMAIN disk'[f]) /\ DOMAIN disk'[f] # DOMAIN disk[f])
                           => disk'[f][k] = disk[f][k]
DiskRecordsNonEmpty == \A f \in Files : \A k \in DOMAIN disk[f] : disk[f][k] # <<>>
=============================================================================
