---- MODULE PyDRexC17 ----
\* Persistence configurations for C17: minerals with distinct configurations and 1..3 stored
\* snapshots, saved under distinct postfixes / as whole file into one or two archives, in any
\* order, then recovered through either loader in any order; corrupt saves and bad names refused.
EXTENDS PyDRex
C17Configs == { [phase |-> 0, fabric |-> 0, regime |-> 4, n |-> 5],
                [phase |-> 1, fabric |-> 5, regime |-> 4, n |-> 7],
                [phase |-> 0, fabric |-> 3, regime |-> 6, n |-> 5],
                [phase |-> 0, fabric |-> 2, regime |-> 1, n |-> 3],
                [phase |-> 0, fabric |-> 4, regime |-> 7, n |-> 4],
                [phase |-> 0, fabric |-> 1, regime |-> 2, n |-> 6] }   \* unsupported regime still saves
C17Pars == { [M |-> 125, chi |-> 3, asm |-> <<0, 1>>, phiOl |-> 7, x |-> <<5, 0>>] }
\* construction and a few updates, then persistence only
Grow(m) == \/ \E c \in Configs, s \in Seeds, tx \in Textures : Create(m, c, s, tx, InitO(s, c.n, tx), InitF(c.n, tx))
           \/ \E fl \in Flows, par \in Pars :
                 cfg[m] # NULL /\ UpdateOk(m, fl, par, NoCb, NextO(Last(hist[m]), cfg[m], cfg[m].regime, fl, par),
                                                               NextF(Last(hist[m]), cfg[m], cfg[m].regime, fl, par))
C17Next == \E m \in Minerals : Grow(m) \/ DiskNext(m) \/ LoadBadName(m)
C17Spec == Init /\ [][C17Next]_vars
====
