---- MODULE PyDRexC17 ----
\* Persistence configurations for C17: minerals with distinct configurations and 1..3 stored
\* snapshots, saved under distinct postfixes / as whole file into one or two archives, in any
\* order, then recovered through either loader in any order; corrupt saves and bad names refused.
EXTENDS PyDRex
C17Configs == { [phase |-> 0, fabric |-> 0, regime |-> 4, n |-> 5],
                [phase |-> 1, fabric |-> 5, regime |-> 4, n |-> 7],
                [phase |-> 0, fabric |-> 3, regime |-> 6, n |-> 5],
                [phase |-> 0, fabric |-> 2, regime |-> 1, n |-> 3],
                [phase |-> 0, fabric |-> 4, regime |-> 7, n |-> 4],
                [phase |-> 0, fabric |-> 1, regime |-> 2, n |-> 6],    \* unsupported regime still saves
                [phase |-> 0, fabric |-> 0, regime |-> 0, n |-> 2] }   \* every ordinal zero ("falsy" metadata)
\* Postfixes are opaque keys for the machine: two entries are the same entry iff their postfix STRINGS are equal.
\* The family replayed on real archives is chosen so that every string relation a careless key lookup could
\* confuse occurs between two members: prefix ("1" / "10"), tail after an underscore ("ol_1", "en_1" / "1"),
\* head before an underscore ("1_ol" / "1"), an archive-member kind word ("meta", "fractions_1": members
\* meta_meta, fractions_fractions_1), a blank inside and the empty postfix (members meta_, distinct from the
\* whole-file member meta).
\* "1.5": the head before a DOT is another postfix ("1"): archive member meta_1.5.npy beside meta_1.npy - a tool that
\* strips "the extension" from member names confuses them.  (A postfix that itself ends in ".npy" is left out: numpy's
\* archive writer does not append the extension a second time, so "1.npy" and "1" name the same member by construction.)
PfFamily == {"1", "10", "q", "ol_1", "en_1", "1_ol", "meta", "fractions_1", "a b", "", "1.5"}
PfFamilyQ == {"1", "10", "ol_1", "1.5", "meta", ""}
PfFamilyT == {"1", "10", "ol_1", ""}      \* thorough enumeration with ANY mineral as the k-th saver
C17Pars == { [M |-> 125, chi |-> 3, asm |-> <<0, 1>>, phiOl |-> 7, x |-> <<5, 0>>] }
\* construction and a few updates, then persistence only
Grow(m) == \/ \E c \in Configs, s \in Seeds, tx \in Textures : Create(m, c, s, tx, InitO(s, c.n, tx), InitF(c.n, tx))
           \/ \E fl \in Flows, par \in Pars :
                 cfg[m] # NULL /\ UpdateOk(m, fl, par, NoCb, NextOP(Last(hist[m]), cfg[m], cfg[m].regime, fl, par, Fm[m]),
                                                               NextFP(Last(hist[m]), cfg[m], cfg[m].regime, fl, par, Fm[m]))
C17Next == \E m \in Minerals : Grow(m) \/ DiskNext(m) \/ LoadBadName(m)
C17Spec == Init /\ [][C17Next]_vars
\* ---- exhaustive enumeration for replay: three pre-built minerals with distinct configurations,
\* every order of three postfix saves (postfixes where one is a string prefix of another), then one
\* recovery through either loader.  The call log is part of the state: every behaviour is emitted.
CONSTANT FixedSavers     \* TRUE: the k-th save is of the k-th mineral (quick); FALSE: any mineral
eA == [phase |-> 0, fabric |-> 0, regime |-> 0, n |-> 2]
eB == [phase |-> 1, fabric |-> 5, regime |-> 4, n |-> 3]
eC == [phase |-> 0, fabric |-> 3, regime |-> 6, n |-> 4]
ECfg(m) == IF m = "a" THEN eA ELSE IF m = "b" THEN eB ELSE eC
Built == {"a", "b", "c"}
\* mineral b holds client-supplied arrays in an unusual memory representation (not C-contiguous)
ETex(m) == IF m = "b" THEN "layout" ELSE "random"
EnumInit == /\ cfg = [m \in Minerals |-> IF m \in Built THEN ECfg(m) ELSE NULL]
            /\ hist = [m \in Minerals |-> IF m \in Built THEN << [o |-> InitO(7, ECfg(m).n, ETex(m)), f |-> InitF(ECfg(m).n, ETex(m))] >> ELSE <<>>]
            /\ nUpd = [m \in Minerals |-> 0] /\ Fm = [m \in Minerals |-> <<>>]
            /\ disk = [f \in Files |-> <<>>] /\ err = "None" /\ ops = 0
            /\ log = << [a |-> "Create", m |-> "a", c |-> eA, seed |-> 7, tex |-> "random"],
                        [a |-> "Create", m |-> "b", c |-> eB, seed |-> 7, tex |-> "layout"],
                        [a |-> "Create", m |-> "c", c |-> eC, seed |-> 7, tex |-> "random"] >>
KthSaver == <<"a", "b", "c">>
EnumNext == \/ ops < 3 /\ \E m \in Built, pf \in Postfixes :
                  (FixedSavers => m = KthSaver[ops + 1]) /\ SavePostfix(m, "f1", pf)
            \/ ops = 3 /\ \E k \in Keys("f1") : (\E m \in Built : Load(m, "f1", k)) \/ FromFile("d", "f1", k)
EnumSpec == EnumInit /\ [][EnumNext]_vars
\* second pattern: save, recover, save AGAIN into the same archive (postfix or whole-file rewrite), recover
\* again - results must not depend on anything remembered from the first recovery
Enum2Next == \/ ops = 0 /\ \E pf \in Postfixes : SavePostfix("a", "f1", pf)
             \/ ops \in {1, 3} /\ \E k \in Keys("f1") : (\E m \in Built : Load(m, "f1", k)) \/ (cfg["d"] = NULL /\ FromFile("d", "f1", k))
             \/ ops = 2 /\ ((\E pf \in Postfixes : SavePostfix("b", "f1", pf)) \/ SaveWholeFile("c", "f1"))
Enum2Spec == EnumInit /\ [][Enum2Next]_vars
====
