----------------------------- MODULE RatesJudge -----------------------------
(* C03, code -> spec: scenario classes for pydrex.core.derivatives on floating-point inputs    *)
(* (enumerated here, concretised by the harness) and the law that judges the integer measures  *)
(* recorded from each call.  Units: 1e-12 (relative), capped at 2e9.                           *)
EXTENDS Integers, Sequences, FiniteSets, TLC, Json, IOUtils
VARIABLE st
Fabs == {"A", "B", "C", "D", "E", "EN"}
Regimes == {4, 6}
\* "mixed": generic and axis-aligned grains alternate in storage order (a grain with no resolved shear stored
\* after a rotating one)
OriClasses == {"generic", "aligned", "mixed", "near1e-8", "near1e-12", "near1e-15", "near1e-17", "dead", "single"}
VolClasses == {"uniform", "zeros", "dominant"}
\* "pure_rot": diagonal strain rate plus vorticity - axis-aligned grains resolve no shear at all, yet the flow rotates
FlowClasses == {"ss_xz", "ss_yx", "ss_yz", "pure_xy", "pure_xz", "axi_c", "axi_e", "gen3d", "trace", "rot", "zero", "pure_rot"}
CONSTANT Sizes
ScenInit == st \in {[kind |-> "scen", fab |-> f, regime |-> r, ori |-> o, vol |-> v, flow |-> fl, n |-> n] :
                      f \in Fabs, r \in Regimes, o \in OriClasses, v \in VolClasses, fl \in FlowClasses, n \in Sizes}
ScenNext == UNCHANGED st
EmitScen == PrintT(<<"SCEN", ToJson(st)>>)

\* ---------------------------------------------------------------- judge
TraceLog == ndJsonDeserialize(IOEnv.TRACE_FILE)
Tol == 1000          \* 1e-9 in 1e-12 units
Clauses(e) ==
    (IF e.exc # "None" THEN {"raised-" \o e.exc} ELSE {})
    \cup (IF e.exc = "None" /\ ~e.finite THEN {"not-finite"} ELSE {})
    \cup (IF e.exc = "None" /\ e.finite /\ e.skew_e12 > Tol THEN {"spin-not-skew"} ELSE {})
    \cup (IF e.exc = "None" /\ e.finite /\ e.sum_e12 > Tol THEN {"volume-rates-do-not-sum-to-zero"} ELSE {})
    \cup (IF e.exc = "None" /\ e.finite /\ ~e.deadOK THEN {"zero-volume-grain-has-rate"} ELSE {})
    \cup (IF e.exc = "None" /\ e.finite /\ e.linM_e12 > Tol THEN {"not-linear-in-mobility"} ELSE {})
    \cup (IF e.exc = "None" /\ e.finite /\ e.linPhi_e12 > Tol THEN {"not-linear-in-phase-fraction"} ELSE {})
    \cup (IF e.exc = "None" /\ e.finite /\ ~e.m0OK THEN {"rates-with-zero-mobility"} ELSE {})
    \cup (IF e.exc = "None" /\ e.finite /\ e.growMismatch > 0 THEN {"growth-sign"} ELSE {})
JudgeInit == st = [kind |-> "judge", l |-> 1]
JudgeNext == st.l <= Len(TraceLog) /\ st' = [kind |-> "judge", l |-> st.l + 1]
Verdict == IF st.kind = "judge" /\ st.l > 1
           THEN LET e == TraceLog[st.l - 1] c == Clauses(e) IN
                (IF c = {} THEN TRUE ELSE PrintT(<<"REJECT", ToJson([id |-> e.id, clauses |-> c])>>))
                /\ (IF st.l = Len(TraceLog) + 1 THEN PrintT(<<"DONE", Len(TraceLog)>>) ELSE TRUE)
           ELSE TRUE
=============================================================================
