------------------------------- MODULE DefGrad ------------------------------
(***************************************************************************)
(* Layer A for C06: exact solutions of dF/dt = L(t, x(t)) . F on families  *)
(* with a closed form.  The flow map Phi of a step multiplies F from the   *)
(* LEFT:  F(T) = Phi(T) . F0  (this is what distinguishes L.F from F.L     *)
(* when F0 does not commute with L).                                       *)
(*                                                                         *)
(*  nil2   N = s u(x)v, u.v = 0 (any simple shear):  Phi = I + tau N       *)
(*  nil3   N^3 = 0:               Phi = I + tau N + tau^2/2 N^2            *)
(*  lamN   lambda I + N, N^2 = 0: Phi = exp(lambda tau) (I + tau N)        *)
(*  sym    Q diag(l) Q^T:         Phi = sum_i exp(l_i tau) q_i q_i^T       *)
(*  skew   w K, K = [k]x, |k| = 1 rational:                                *)
(*                                Phi = I + sin(w tau) K + (1 - cos) K^2   *)
(* Time-dependent L(t) = g(t) M and position-dependent L(x(t)) =           *)
(* g(x(t)) M with g = 1 + a*s commute with themselves, so Phi = Phi_M(tau) *)
(* with tau = int_0^T g.  Piecewise histories over several update calls    *)
(* are exact products of nilpotent steps (non-commuting in general).       *)
(*                                                                         *)
(* A solution is emitted as a list of pairs <<coefficient term, rational   *)
(* matrix>>; the harness evaluates sum_k ev(term_k) * matrix_k.            *)
(***************************************************************************)
EXTENDS Mat3, Term, Json, SequencesExt

VARIABLE st

\* ---------------------------------------------------------------- families
E3(i, j) == [a \in I3 |-> [b \in I3 |-> IF a = i /\ b = j THEN QOne ELSE QZ]]
Nil2Set == {MScale(Q(s), E3(p[1], p[2])) : s \in {1, 2}, p \in {<<1,2>>, <<2,1>>, <<1,3>>, <<3,1>>, <<2,3>>, <<3,2>>}}
            \cup {IntMat(<<<<1, -1, 0>>, <<1, -1, 0>>, <<0, 0, 0>>>>),        \* rotated simple shear: N^2 = 0
                  IntMat(<<<<2, 0, 4>>, <<0, 0, 0>>, <<-1, 0, -2>>>>)}
Nil3Set == {IntMat(<<<<0, 1, 2>>, <<0, 0, -1>>, <<0, 0, 0>>>>), IntMat(<<<<0, 0, 0>>, <<2, 0, 0>>, <<1, -1, 0>>>>)}
LamNSet == {<<<<1, 2>>, E3(1, 3)>>, <<<<-1, 3>>, MScale(Q(2), E3(2, 1))>>, <<Q(1), IntMat(<<<<1, -1, 0>>, <<1, -1, 0>>, <<0, 0, 0>>>>)>>}
SymQs == {QuatRot(<<1, 0, 0, 0>>), QuatRot(<<1, 1, 1, 0>>), QuatRot(<<1, 1, 0, 1>>)}
SymLs == {<<Q(1), Q(-1), QZ>>, <<<<1, 2>>, <<1, 2>>, Q(-1)>>, <<Q(1), <<-1, 4>>, <<1, 4>>>>}   \* last: non-zero trace
SkewAxes == {<<<<2, 3>>, <<2, 3>>, <<1, 3>>>>, <<<<3, 5>>, <<4, 5>>, QZ>>, <<QZ, QZ, QOne>>}
Cross(k) == [i \in I3 |-> [j \in I3 |->
               LET e(r) == QMul(Q(Eps(i, r, j)), k[r]) IN QSum3(e)]]     \* K_ij = eps_{i r j} k_r, K v = k x v

Pow2(N) == MMul(N, N)
IsNil2(N) == Pow2(N) = MZero
IsNil3(N) == MMul(Pow2(N), N) = MZero

\* exact (rational) flow maps of the nilpotent families
PhiNil(N, tau) == MAdd(MAdd(MId, MScale(tau, N)), MScale(QMul(QHalf, QMul(tau, tau)), Pow2(N)))

\* solution as a list of <<term, matrix>> pairs, already multiplied by F0 from the left
SolNil(N, tau, F0) == << <<EInt(1), MatToSeq(MEval(MMul(PhiNil(N, tau), F0)))>> >>
SolLamN(lam, N, tau, F0) == << <<EExp(EQ(QMul(lam, tau))), MatToSeq(MEval(MMul(MAdd(MId, MScale(tau, N)), F0)))>> >>
Outer(Qm, i) == [a \in I3 |-> [b \in I3 |-> QMul(Qm[a][i], Qm[b][i])]]
SolSym(Qm, l, tau, F0) == [i \in I3 |-> <<EExp(EQ(QMul(l[i], tau))), MatToSeq(MEval(MMul(Outer(Qm, i), F0)))>>]
SolSkew(k, w, tau, F0) == LET K == Cross(k) K2 == Pow2(Cross(k)) IN
    << <<EInt(1), MatToSeq(MEval(MMul(MAdd(MId, K2), F0)))>>,
       <<ESin(EQ(QMul(w, tau))), MatToSeq(MEval(MMul(K, F0)))>>,
       <<ENeg(ECos(EQ(QMul(w, tau)))), MatToSeq(MEval(MMul(K2, F0)))>> >>

\* generator matrix M of each family member (the velocity gradient is g * M)
SymMat(Qm, l) == MEval(MMul(MMul(Qm, [i \in I3 |-> [j \in I3 |-> IF i = j THEN l[i] ELSE QZ]]), MT(Qm)))

\* tau = int_0^T (1 + a s) ds
Tau(T, a) == QAdd(T, QMul(QMul(QHalf, a), QMul(T, T)))

F0s == {MId, IntMat(<<<<1, 1, 0>>, <<0, 1, 0>>, <<0, 0, 1>>>>), IntMat(<<<<2, 0, 1>>, <<-1, 1, 0>>, <<0, 1, 1>>>>),
        [i \in I3 |-> [j \in I3 |-> IF i = j THEN (IF i = 1 THEN <<1, 2>> ELSE IF i = 2 THEN Q(2) ELSE QOne) ELSE (IF i = 3 /\ j = 1 THEN <<1, 3>> ELSE QZ)]]}
\* 9/200: a short history; the harness integrates it as 50 very short calls at rate factors 1e3 and 1e-15
\* (velocity gradient k M over a duration T / k has the same flow map)
Ts == {<<1, 2>>, QOne, <<9, 200>>}
\* g(s) = 1 + a s along time ("t") or along the first position coordinate of x(t) = v t ("x")
\* ("t2": g(s) = 1 + a s^2 - a history whose mean rate over an interval is NOT its rate at the midpoint, so that
\*  one-point quadrature of the velocity gradient is not exact)
\*  "hat": g(s) = 1 + a hat(s / P), the triangle wave with period P = T / 2: the rate factor is the SAME at the start,
\*  the midpoint and the end of a step (and at the ends of each half), and different in between - a history that an
\*  implementation sampling the velocity gradient at a few instants of an update would take for a steady one)
GClasses == {[via |-> "const", a |-> QZ], [via |-> "t", a |-> <<1, 2>>], [via |-> "x", a |-> <<1, 4>>], [via |-> "t2", a |-> Q(3)],
             [via |-> "hat", a |-> Q(2)]}
XVel1 == <<7, 10>>             \* first component of the pathline velocity used for "x"
EffA(g) == IF g.via = "x" THEN QMul(g.a, XVel1) ELSE g.a

\* gint = int_0^s g as a term in the run-time parameter s (local time within the step)
GInt(g, T) == IF g.via = "hat"
           THEN EAdd(EParam("s"), EMul(EQ(g.a), EHatInt(EParam("s"), EQ(QMul(QHalf, T)))))
           ELSE IF g.via = "t2"
           THEN EAdd(EParam("s"), EMul(EQ(QDiv(g.a, Q(3))), EMul(EParam("s"), EMul(EParam("s"), EParam("s")))))
           ELSE EAdd(EParam("s"), EMul(EQ(QMul(QHalf, EffA(g))), EMul(EParam("s"), EParam("s"))))
\* tau = int_0^T g
TauG(T, g) == IF g.via = "hat" THEN QAdd(T, QMul(g.a, QMul(QHalf, T)))     \* whole periods: the mean of hat is 1/2
              ELSE IF g.via = "t2" THEN QAdd(T, QMul(QDiv(g.a, Q(3)), QMul(T, QMul(T, T)))) ELSE Tau(T, EffA(g))
Step(fam, M, sol, T, g) == [fam |-> fam, M |-> MatToSeq(M), T |-> T, g |-> g, trace |-> MTrace(M), sol |-> sol, gint |-> GInt(g, T)]

\* (duration, g class) pairs: the short duration only with constant g (rationals stay small)
TG == {tg \in Ts \X GClasses : tg[2].via = "const" \/ tg[1] # <<9, 200>>}
SingleCases ==
    {[kind |-> "single", F0 |-> MatToSeq(F0),
      steps |-> << Step("nil", N, SolNil(N, TauG(tg[1], tg[2]), F0), tg[1], tg[2]) >>] :
        N \in Nil2Set \cup Nil3Set, F0 \in F0s, tg \in TG}
  \cup
    {[kind |-> "single", F0 |-> MatToSeq(F0),
      steps |-> << Step("lamN", MAdd(MScale(p[1], MId), p[2]), SolLamN(p[1], p[2], TauG(tg[1], tg[2]), F0), tg[1], tg[2]) >>] :
        p \in LamNSet, F0 \in F0s, tg \in TG}
  \cup
    {[kind |-> "single", F0 |-> MatToSeq(F0),
      steps |-> << Step("sym", SymMat(Qm, l), SolSym(Qm, l, TauG(tg[1], tg[2]), F0), tg[1], tg[2]) >>] :
        Qm \in SymQs, l \in SymLs, F0 \in F0s, tg \in TG}
  \cup
    {[kind |-> "single", F0 |-> MatToSeq(F0),
      steps |-> << Step("skew", MScale(w, Cross(k)), SolSkew(k, w, TauG(tg[1], tg[2]), F0), tg[1], tg[2]) >>] :
        k \in SkewAxes, w \in {Q(1), Q(3)}, F0 \in F0s, tg \in TG}

\* one very long call: simple shear to a shear strain of 100 in a single update (thousands of solver steps)
LongCases == {[kind |-> "long", F0 |-> MatToSeq(F0),
               steps |-> << Step("nil", N, SolNil(N, Q(50), F0), Q(50), [via |-> "const", a |-> QZ]) >>] :
                 N \in {MScale(Q(2), E3(1, 3)), MScale(Q(2), E3(2, 1))}, F0 \in {MId, IntMat(<<<<2, 0, 1>>, <<-1, 1, 0>>, <<0, 1, 1>>>>)}}

\* piecewise histories: products of nilpotent steps, each an update call (or several)
SeqFlows == {MScale(Q(2), E3(1, 3)), MScale(Q(2), E3(2, 1)), IntMat(<<<<1, -1, 0>>, <<1, -1, 0>>, <<0, 0, 0>>>>),
             IntMat(<<<<0, 1, 2>>, <<0, 0, -1>>, <<0, 0, 0>>>>)}
RECURSIVE SeqSteps(_, _, _)
SeqSteps(flows, F, acc) ==
    IF flows = <<>> THEN acc
    ELSE LET N == Head(flows)
             Fn == MEval(MMul(PhiNil(N, QHalf), F))
         IN SeqSteps(Tail(flows), Fn,
                     Append(acc, Step("nil", N, << <<EInt(1), MatToSeq(Fn)>> >>, QHalf, [via |-> "const", a |-> QZ])))
SeqCases == {[kind |-> "sequence", F0 |-> MatToSeq(F0), steps |-> SeqSteps(fl, F0, <<>>)] :
               fl \in (SeqFlows \X SeqFlows) \cup (SeqFlows \X SeqFlows \X SeqFlows),
               F0 \in {MId, IntMat(<<<<2, 0, 1>>, <<-1, 1, 0>>, <<0, 1, 1>>>>)}}

\* ---------------------------------------------------------------- generator + lemmas
Init == st \in {[phase |-> "go", kind |-> k] : k \in {"single", "sequence", "lemma"}}
Next == /\ st.phase = "go"
        /\ \/ st.kind = "single" /\ \E c \in SingleCases : st' = [phase |-> "case", c |-> c]
           \/ st.kind = "sequence" /\ \E c \in SeqCases \cup LongCases : st' = [phase |-> "case", c |-> c]
           \/ st.kind = "lemma" /\ \E N \in Nil2Set \cup Nil3Set, F0 \in F0s :
                 st' = [phase |-> "lemma", N |-> N, F0 |-> F0]
Spec == Init /\ [][Next]_st

\* exact lemmas on the nilpotent families (rational arithmetic)
Lemmas == st.phase = "lemma" =>
    LET N == st.N  F0 == st.F0 IN
    /\ IsNil3(N)
    /\ \A s, t \in {<<1, 2>>, QOne, <<3, 2>>} :
          PhiNil(N, QAdd(s, t)) = MMul(PhiNil(N, t), PhiNil(N, s))                 \* semigroup
    /\ \A t \in {<<1, 2>>, QOne} :
          /\ MDet(PhiNil(N, t)) = QOne                                            \* trace-free => det 1
          /\ \A B \in F0s : MMul(PhiNil(N, t), MMul(F0, B)) = MMul(MMul(PhiNil(N, t), F0), B)   \* right-equivariance
          \* d/dt Phi = N Phi  (finite form: Phi(t) - I = N * int_0^t Phi, checked via the series)
          /\ MSub(PhiNil(N, t), MId) = MMul(N, MAdd(MScale(t, MId), MScale(QMul(QHalf, QMul(t, t)), N)))
    \* L.F differs from F.L whenever F0 does not commute with N: the two candidate solutions differ
    /\ (MMul(N, F0) # MMul(F0, N)) => MMul(PhiNil(N, QOne), F0) # MMul(F0, PhiNil(N, QOne))
CaseSane == st.phase = "case" =>
    /\ MDet(IntMat(<<<<1,0,0>>,<<0,1,0>>,<<0,0,1>>>>)) = QOne
    /\ Len(st.c.steps) >= 1
Emit == st.phase = "case" => PrintT(<<"CASE", ToJson(st.c)>>)
=============================================================================
