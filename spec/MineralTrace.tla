---------------------------- MODULE MineralTrace ----------------------------
(***************************************************************************)
(* Layer C: validates executions recorded from the real pydrex objects     *)
(* against the Layer-B machine (PyDRex.tla).  One ndjson line per public   *)
(* call; many traces per file (field tid), the machine is reset when tid   *)
(* changes.  Every line is consumed by exactly one PyDRex action with its  *)
(* arguments bound to the logged ones and its new contents bound to the    *)
(* logged digests; the projected implementation state logged after the     *)
(* call must equal the action's post-state.  A line no action can explain  *)
(* is consumed by Adopt, which names the failing clause, adopts the logged *)
(* state and goes on - so the rest of the trace is still checked.          *)
(* On top of the actions, Judge evaluates the C01 validity law (budget as  *)
(* a function of the machine's own nUpd and accumulated strain) on the     *)
(* integer measures logged for the newest snapshot.                        *)
(***************************************************************************)
EXTENDS PyDRex, IOUtils

TraceLog == ndJsonDeserialize(IOEnv.TRACE_FILE)
N == Len(TraceLog)

VARIABLES l,        \* next line to consume
          strain,   \* [Minerals -> accumulated strain in 1e-6 units]
          bad       \* sequence of <<tid, line, clause>> verdicts
tvars == <<vars, l, strain, bad>>

Ev == TraceLog[l]

NewTrace == IF l = 1 THEN TRUE ELSE TraceLog[l].tid # TraceLog[l - 1].tid

\* logged projection -> spec-shaped values -------------------------------------------
Has(r, k) == k \in DOMAIN r
ObsHist(ob) == [k \in 1..Len(ob.odig) |-> [o |-> ob.odig[k], f |-> ob.fdig[k]]]
ObsCfg(ob) == [phase |-> ob.cfg.phase, fabric |-> ob.cfg.fabric, regime |-> ob.cfg.regime, n |-> ob.cfg.n]
Obs(m) == Ev.obs[m]
ObsOf(m) == IF Has(Ev.obs, m) THEN ObsHist(Obs(m)) ELSE hist[m]
LoggedDisk == [f \in Files |->
                 IF Has(Ev.disk, f)
                 THEN [k \in DOMAIN Ev.disk[f] |->
                         [meta |-> <<Ev.disk[f][k].meta[1], Ev.disk[f][k].meta[2], Ev.disk[f][k].meta[3]>>,
                          n |-> Ev.disk[f][k].n,
                          hist |-> ObsHist(Ev.disk[f][k])]]
                 ELSE <<>>]
\* uniform initial volume contents (no grain under the sliding floor), from the Create lines
UniformIds == {TraceLog[i].obs[TraceLog[i].m].fdig[1] :
                 i \in {j \in 1..N : TraceLog[j].ev = "Create" /\ TraceLog[j].uniform}}
TraceFloorless(f) == f \in UniformIds

Par == [M |-> Ev.par.M, chi |-> Ev.par.chi, asm |-> Ev.par.asm, phiOl |-> Ev.par.phiOl, x |-> Ev.par.x]

\* post-state agreement for the minerals the call touched ------------------------------
Agree(m) == /\ hist'[m] = ObsHist(Obs(m))
            /\ cfg'[m] = ObsCfg(Obs(m))
            /\ Obs(m).nf = Len(Obs(m).odig)
DiskAgree == disk' = LoggedDisk

\* ---------------------------------------------------------------- bound actions
TCreate == /\ Ev.ev = "Create" /\ Ev.exc = "None"
           /\ Create(Ev.m, ObsCfg(Obs(Ev.m)), 0, "t", Obs(Ev.m).odig[1], Obs(Ev.m).fdig[1])
           /\ Agree(Ev.m)
TUpdateOk == /\ Ev.ev = "Update" /\ Ev.exc = "None"
             /\ UpdateOk(Ev.m, Ev.fl, Par, Ev.cb, Last(Obs(Ev.m).odig), Last(Obs(Ev.m).fdig))
             /\ Agree(Ev.m)
TUpdateRejected == /\ Ev.ev = "Update" /\ Ev.exc = "ValueError"
                   /\ UpdateRejected(Ev.m, Ev.fl, Par, Ev.cb)
                   /\ Agree(Ev.m)
TUpdateAbsent == /\ Ev.ev = "Update" /\ Ev.exc = "RuntimeError"
                 /\ UpdatePhaseAbsent(Ev.m, Ev.fl, Par, Ev.cb)
                 /\ Agree(Ev.m)
News == [m \in Minerals |-> IF Has(Ev.obs, m) THEN [o |-> Last(Obs(m).odig), f |-> Last(Obs(m).fdig)] ELSE <<>>]
TUpdateAllOk == /\ Ev.ev = "UpdateAll" /\ Ev.exc = "None"
                /\ UpdateAllOk(Ev.ms, Ev.fl, Par, News)
                /\ \A k \in 1..Len(Ev.ms) : Agree(Ev.ms[k])
TUpdateAllPartial == /\ Ev.ev = "UpdateAll" /\ Ev.exc # "None"
                     /\ \E k \in 1..Len(Ev.ms) :
                          /\ UpdateAllPartial(Ev.ms, k, Ev.fl, Par, News)
                          /\ err' = Ev.exc
                     /\ \A k \in 1..Len(Ev.ms) : Agree(Ev.ms[k])
TSavePostfix == /\ Ev.ev = "SavePostfix" /\ Ev.exc = "None"
                /\ SavePostfix(Ev.m, Ev.f, Ev.pf) /\ DiskAgree
TSaveWhole == /\ Ev.ev = "SaveWholeFile" /\ Ev.exc = "None"
              /\ SaveWholeFile(Ev.m, Ev.f) /\ DiskAgree
TSaveCorrupt == /\ Ev.ev = "SaveCorrupt" /\ Ev.exc = "ValueError"
                /\ SaveCorrupt(Ev.m, Ev.f, Ev.pf) /\ DiskAgree
TLoad == /\ Ev.ev = "Load" /\ Ev.exc = "None"
         /\ Load(Ev.m, Ev.f, Ev.k) /\ Agree(Ev.m) /\ DiskAgree
TFromFile == /\ Ev.ev = "FromFile" /\ Ev.exc = "None"
             /\ FromFile(Ev.m, Ev.f, Ev.k) /\ Agree(Ev.m) /\ DiskAgree
TBadArgs == /\ Ev.ev = "UpdateBadArgs" /\ Ev.exc = "ValueError"
            /\ UpdateBadArgs(Ev.m, Ev.which) /\ Agree(Ev.m)
\* the client's own callable raised: whatever exception class comes out, nothing may have moved
TUpdateFaulted == /\ Ev.ev = "UpdateFaulted" /\ Ev.exc # "None"
                  /\ UpdateFaulted(Ev.m, Ev.fl, Par, Ev.fc) /\ Agree(Ev.m)
TUpdateAllFaulted == /\ Ev.ev = "UpdateAllFaulted" /\ Ev.exc # "None"
                     /\ UpdateAllFaulted(Ev.ms, Ev.fl, Par, Ev.fc)
                     /\ \A k \in 1..Len(Ev.ms) : Agree(Ev.ms[k])
\* a duplicate (deepcopy / pickle round trip) holds exactly what its original holds, and the original is untouched
TClone == /\ Ev.ev = "Clone" /\ Ev.exc = "None"
          /\ Clone(Ev.m, Ev.m2, Ev.how) /\ Agree(Ev.m) /\ Agree(Ev.m2)
TVoigtOk == /\ Ev.ev = "Voigt" /\ Ev.exc = "None"
            /\ VoigtOk(Ev.ms, Par) /\ \A k \in 1..Len(Ev.ms) : Agree(Ev.ms[k])
TVoigtRejected == /\ Ev.ev = "Voigt" /\ Ev.exc = "ValueError"
                  /\ VoigtRejected(Ev.ms, Par) /\ \A k \in 1..Len(Ev.ms) : Agree(Ev.ms[k])
TLoadBadName == /\ Ev.ev = "LoadBadName" /\ Ev.exc = "ValueError"
                /\ LoadBadName(Ev.m)
                /\ (Has(Ev.obs, Ev.m) /\ cfg[Ev.m] # NULL) => Agree(Ev.m)

Bound == \/ TCreate \/ TUpdateOk \/ TUpdateRejected \/ TUpdateAbsent
         \/ TUpdateAllOk \/ TUpdateAllPartial
         \/ TSavePostfix \/ TSaveWhole \/ TSaveCorrupt \/ TLoad \/ TFromFile \/ TLoadBadName
         \/ TBadArgs \/ TVoigtOk \/ TVoigtRejected \/ TUpdateFaulted \/ TUpdateAllFaulted \/ TClone

\* ---------------------------------------------------------------- diagnosis (names only)
Touched == IF Has(Ev, "ms") THEN {Ev.ms[k] : k \in 1..Len(Ev.ms)} ELSE IF Ev.ev = "Clone" THEN {Ev.m, Ev.m2} ELSE {Ev.m}
Diagnose ==
    IF Ev.ev = "Update" /\ cfg[Ev.m] # NULL THEN
        LET d == Dispatch(cfg[Ev.m], EffRegime(Ev.m, Ev.cb), Par)
            oh == ObsHist(Obs(Ev.m))
            accepted == d \in OkClasses IN
        IF Ev.exc = "None" /\ ~accepted THEN "update-accepted-where-spec-" \o d
        ELSE IF Ev.exc # "None" /\ d \notin RejClasses \cup {"absent"} THEN "update-raised-" \o Ev.exc \o "-where-spec-accepts"
        ELSE IF Ev.exc # "None" /\ oh # hist[Ev.m] THEN "failed-update-touched-history"
        ELSE IF Ev.exc # "None" THEN "wrong-error-class-" \o Ev.exc
        ELSE IF ~IsPrefix(hist[Ev.m], oh) THEN "history-rewritten"
        ELSE IF Len(oh) # Len(hist[Ev.m]) + 1 \/ Obs(Ev.m).nf # Len(oh) THEN "not-one-snapshot-per-update"
        ELSE IF ~ContentOK(Ev.m, EffRegime(Ev.m, Ev.cb), Ev.fl, Par, Last(oh).o, Last(oh).f) THEN "null-forcing-changed-content"
        ELSE "post-state-differs"
    ELSE IF Ev.ev \in {"Load", "FromFile"} THEN "loaded-state-differs-from-archive"
    ELSE IF Ev.ev \in {"SavePostfix", "SaveWholeFile"} THEN "archive-differs-after-save"
    ELSE IF Ev.ev = "SaveCorrupt" THEN (IF Ev.exc # "ValueError" THEN "corrupt-save-not-refused" ELSE "corrupt-save-wrote")
    ELSE IF Ev.ev = "UpdateAll" THEN "update-all-post-state-differs"
    ELSE IF Ev.ev \in {"UpdateFaulted", "UpdateAllFaulted"} THEN
        (IF Ev.exc = "None" THEN "client-fault-swallowed"
         ELSE IF \E m \in Touched : ObsOf(m) # hist[m] THEN "failed-update-touched-history"
         ELSE "client-fault-changed-the-mineral")
    ELSE IF Ev.ev = "Clone" THEN "copy-differs-from-its-original"
    ELSE IF Ev.ev = "UpdateBadArgs" THEN (IF Ev.exc # "ValueError" THEN "bad-arguments-not-refused" ELSE "bad-arguments-touched-history")
    ELSE IF Ev.ev = "Voigt" /\ AllLive(Ev.ms) THEN
        (IF Ev.exc = "None" /\ ~VoigtAccepts(Ev.ms, Par) THEN "voigt-accepted-where-spec-rejects"
         ELSE IF Ev.exc # "None" /\ VoigtAccepts(Ev.ms, Par) THEN "voigt-rejected-where-spec-accepts"
         ELSE "voigt-touched-a-mineral")
    ELSE "no-spec-action-" \o Ev.ev

IsUpd == Ev.ev \in {"Update", "UpdateAll"}
Adopt == /\ ~ENABLED Bound
         /\ bad' = Append(bad, <<Ev.tid, l, Diagnose>>)
         /\ hist' = [m \in Minerals |-> IF m \in Touched /\ Has(Ev.obs, m) THEN ObsHist(Obs(m)) ELSE hist[m]]
         /\ cfg'  = [m \in Minerals |-> IF m \in Touched /\ Has(Ev.obs, m) THEN ObsCfg(Obs(m)) ELSE cfg[m]]
         /\ disk' = LoggedDisk
         /\ nUpd' = [m \in Minerals |-> IF IsUpd /\ m \in Touched /\ Has(Ev.obs, m) /\ Len(Obs(m).odig) = Len(hist[m]) + 1
                                        THEN nUpd[m] + 1 ELSE nUpd[m]]
         /\ Fm' = [m \in Minerals |-> IF IsUpd /\ m \in Touched /\ Has(Ev.obs, m) /\ Len(Obs(m).odig) = Len(hist[m]) + 1
                                        THEN Append(Fm[m], Ev.fl) ELSE Fm[m]]
         /\ err' = Ev.exc /\ ops' = ops + 1 /\ log' = log

\* ---------------------------------------------------------------- C01 validity law
Budget(n, e6) == 5000000 + 1000000 * n + 2 * e6   \* 1e-9 units; e6 = strain * 1e6, so 2e-3 * strain = 2 * e6 * 1e-9
Grew(m) == Len(hist'[m]) = Len(hist[m]) + 1
Judge(m) ==
    LET v == Obs(m).v
        e6 == strain'[m]
        \* the validity of the INITIAL snapshot is promised for default-constructed minerals; a texture supplied by the
        \* client (field default = FALSE) is the client's responsibility and is judged from its first update on
        fresh == IF Ev.ev = "Clone" THEN FALSE          \* a copy adds no snapshot of its own
                 ELSE IF Ev.ev = "Create" THEN (IF Has(Ev, "default") THEN Ev.default ELSE TRUE) ELSE Grew(m) IN
    IF ~fresh THEN <<>>
    ELSE IF ~v.shapeOK THEN <<"snapshot-shape">>
    ELSE IF ~v.finite THEN <<"snapshot-not-finite">>
    ELSE IF v.minFneg THEN <<"negative-volume">>
    ELSE IF v.sumDev_e15 > 1000 THEN <<"volumes-do-not-sum-to-1">>
    ELSE IF ~v.absLe1 THEN <<"orientation-entry-outside-unit-interval">>
    ELSE IF ~v.detPos THEN <<"orientation-left-handed">>
    ELSE IF v.ortho_e9 > Budget(nUpd'[m], e6) THEN <<"orthonormality-beyond-budget">>
    \* "replica" textures (grain i an exact copy of grain i mod 3, equal volumes): every step of an update treats the
    \* grains alike, so copies of one grain stay bit-identical whatever the grain count
    ELSE IF Has(v, "replicaOK") /\ ~v.replicaOK THEN <<"copies-of-one-grain-diverged">>
    ELSE <<>>
JudgeAll == LET S == {m \in Touched : Has(Ev.obs, m) /\ Has(Obs(m), "v")} IN
            IF S = {} THEN <<>>
            ELSE LET m1 == CHOOSE m \in S : TRUE IN
                 IF Cardinality(S) = 1 THEN Judge(m1)
                 ELSE LET m2 == CHOOSE m \in S \ {m1} : TRUE IN Judge(m1) \o Judge(m2)

StrainStep == strain' = [m \in Minerals |->
                 IF Ev.ev = "Clone" THEN (IF m = Ev.m2 THEN strain[Ev.m] ELSE strain[m])      \* a copy inherits the strain budget
                 ELSE IF m \in Touched /\ Has(Ev.obs, m) /\ Grew(m) THEN strain[m] + Obs(m).dstrain_e6
                 ELSE IF Ev.ev \in {"Create", "FromFile", "Load"} /\ m = Ev.m THEN 0 ELSE strain[m]]

\* ---------------------------------------------------------------- trace machine
TInit == Init /\ l = 1 /\ strain = [m \in Minerals |-> 0] /\ bad = <<>>

Reset == /\ l > 1 /\ l <= N /\ NewTrace /\ (ops # 0 \/ \E m \in Minerals : cfg[m] # NULL)
         /\ cfg' = [m \in Minerals |-> NULL] /\ hist' = [m \in Minerals |-> <<>>]
         /\ nUpd' = [m \in Minerals |-> 0] /\ Fm' = [m \in Minerals |-> <<>>]
         /\ disk' = [f \in Files |-> <<>>] /\ err' = "None" /\ ops' = 0 /\ log' = <<>>
         /\ strain' = [m \in Minerals |-> 0]
         /\ UNCHANGED <<l, bad>>

NeedsReset == l > 1 /\ NewTrace /\ (ops # 0 \/ \E m \in Minerals : cfg[m] # NULL)

Consume == /\ l <= N /\ ~NeedsReset
           /\ l' = l + 1
           /\ \/ (Bound /\ StrainStep /\ bad' = bad \o [k \in 1..Len(JudgeAll) |-> <<Ev.tid, l, JudgeAll[k]>>])
              \/ (Adopt /\ strain' = strain)

TNext == Reset \/ Consume
TSpec == TInit /\ [][TNext]_tvars

\* one verdict line per rejected event; the run continues to the end of the file
Report == /\ (IF bad # <<>> /\ l > 1 /\ bad[Len(bad)][2] = l - 1
              THEN PrintT(<<"REJECT", SelectSeq(bad, LAMBDA b : b[2] = l - 1)>>) ELSE TRUE)
          /\ (IF l = N + 1 THEN PrintT(<<"DONE", N, Len(bad)>>) ELSE TRUE)
=============================================================================
