INIT GInit
NEXT GNext
CONSTANTS
  MaxN = 4
  LemmaN = 4
  FrameRots <- SmallRots
  FseRots <- SmallRots
  AuxSel <- AuxQuick
  Pats <- PatsQuick
  StretchVals <- StretchQuick
  TanVals <- TanQuick
INVARIANT PgrSumOne
INVARIANT PgrBounds
INVARIANT PgrRatios
INVARIANT PgrScaleFree
INVARIANT TexRotations
INVARIANT TexPermutation
INVARIANT TexDiagonal
INVARIANT TexFrame
INVARIANT TexPermTwofold
INVARIANT TexGenerators
INVARIANT TexEigen
INVARIANT TexPgr
INVARIANT TexCoax
INVARIANT TexMeanUnit
INVARIANT FseInvertible
INVARIANT FseEigen
INVARIANT FseStretch
INVARIANT FseRight
INVARIANT FseLeft
INVARIANT ShearEigen
INVARIANT ShearLargest
INVARIANT ShearClosedForm
INVARIANT Emit
CHECK_DEADLOCK FALSE
