INIT Init
CONSTANT VecPos <- BadVecPos
NEXT Next
CHECK_DEADLOCK FALSE
INVARIANT VoigtMapLemma
INVARIANT SymmetryLemma
INVARIANT CountLemma
INVARIANT AllRepresentativesAgree
INVARIANT InverseLemma
INVARIANT WeightLemma
INVARIANT VecTableLemma
