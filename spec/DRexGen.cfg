SPECIFICATION Spec
CONSTANTS
  RotB = 2
  NGen = 6
  QCount = 2
  Multi = TRUE
INVARIANT LemmasHold
INVARIANT FrameLemma
INVARIANT Emit
CHECK_DEADLOCK FALSE
