------------------------------ MODULE PoolLife ------------------------------
(***************************************************************************)
(* Layer B (C14, batched variant): ownership of the worker pool across     *)
(* SEVERAL calls of pydrex.diagnostics.misorientation_indices.             *)
(*                                                                         *)
(* PoolImap.tla specifies one call (scheduling inside the pool).  This     *)
(* module specifies what a sequence of calls may do to the pools:          *)
(*   CallOwn(n)        ncpus given, no pool supplied: the callee creates a *)
(*                     pool, uses it and disposes of it; no supplied pool  *)
(*                     is touched                                          *)
(*   CallSupplied(p,n) the client supplies its pool p ("for any ...        *)
(*                     externally supplied pool"): the callee BORROWS it - *)
(*                     the values come back in snapshot order and p is     *)
(*                     still running afterwards, so the client can use it  *)
(*                     for the next stack (the library's own slow tests    *)
(*                     run one pool over many stacks)                      *)
(*   CallDefault(a,n)  neither ncpus nor a pool given: the callee sizes    *)
(*                     its own pool from the number a >= 1 of CPUs the     *)
(*                     process may run on - the documented "safe default": *)
(*                     one less than available, and never less than the    *)
(*                     documented fallback of 1 (a pool of 0 workers does  *)
(*                     not exist; PoolImap.tla needs w >= 1)               *)
(*   ClientClose(p)    only the client ever shuts its pool down            *)
(*   CallOnClosed(p,n) named deviation, promised by no property: a call on *)
(*                     a pool the CLIENT has closed fails                  *)
(* Checked by TLC over all reachable states: OnlyClientCloses (action      *)
(* property), SuppliedCallsSucceed.  Behaviours are emitted for replay on  *)
(* real process pools, thread pools and the schedule-driven harness pool.  *)
(***************************************************************************)
EXTENDS Integers, Sequences, FiniteSets, TLC, TLCExt, Json
CONSTANTS Pools,      \* identifiers of client-owned pools
          Sizes,      \* stack lengths offered
          Avail,      \* numbers of CPUs the process may be restricted to
          MaxOps
VARIABLES state,      \* [Pools -> "open" | "closed"]
          last,       \* outcome of the last call: "ok" | "error" | "none"
          ops, log
vars == <<state, last, ops, log>>
Init == state = [p \in Pools |-> "open"] /\ last = "none" /\ ops = 0 /\ log = <<>>
Tick(e) == ops < MaxOps /\ ops' = ops + 1 /\ log' = Append(log, e)
CallOwn(n) == /\ Tick([a |-> "CallOwn", n |-> n]) /\ last' = "ok" /\ UNCHANGED state
DefaultWorkers(a) == IF a > 1 THEN a - 1 ELSE 1
CallDefault(a, n) == /\ Tick([a |-> "CallDefault", avail |-> a, n |-> n, w |-> DefaultWorkers(a)])
                     /\ DefaultWorkers(a) >= 1          \* a worker pool exists
                     /\ last' = "ok" /\ UNCHANGED state
CallSupplied(p, n) == /\ Tick([a |-> "CallSupplied", p |-> p, n |-> n]) /\ state[p] = "open"
                      /\ last' = "ok" /\ UNCHANGED state          \* borrowed, not owned
ClientClose(p) == /\ Tick([a |-> "ClientClose", p |-> p]) /\ state[p] = "open"
                  /\ state' = [state EXCEPT ![p] = "closed"] /\ last' = "none"
CallOnClosed(p, n) == /\ Tick([a |-> "CallOnClosed", p |-> p, n |-> n]) /\ state[p] = "closed"
                      /\ last' = "error" /\ UNCHANGED state
Next == \/ \E n \in Sizes : CallOwn(n) \/ \E a \in Avail : CallDefault(a, n)
        \/ \E p \in Pools, n \in Sizes : CallSupplied(p, n) \/ CallOnClosed(p, n)
        \/ \E p \in Pools : ClientClose(p)
Spec == Init /\ [][Next]_vars
\* a pool changes state only by the client's own close
OnlyClientCloses == [][\A p \in Pools : state'[p] # state[p] => (log' # log /\ log'[Len(log')].a = "ClientClose" /\ log'[Len(log')].p = p)]_vars
\* every call on a running supplied pool succeeds, however many calls came before
SuppliedCallsSucceed == (log # <<>> /\ log[Len(log)].a = "CallSupplied") => last = "ok"
\* the default worker count is usable in every environment and never oversubscribes
DefaultUsable == \A a \in Avail : DefaultWorkers(a) \in 1..a
View == <<state, last, ops>>
EmitAtEnd == ops = MaxOps => PrintT(<<"BEH", ToJson([i \in 1..Len(log) |-> log[i]])>>)
=============================================================================
