SPECIFICATION Spec
CONSTANTS
  MaxN = 4
  MaxW = 3
  Env = "imap"
  Record = FALSE
INVARIANT TypeOK
INVARIANT WorkerBound
INVARIANT PrefixInOrder
INVARIANT ResultInOrder
PROPERTY Terminates
CHECK_DEADLOCK FALSE
