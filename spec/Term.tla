-------------------------------- MODULE Term --------------------------------
(* Layer A: constructors of the tiny expression language evaluated by harness/evalterm.py.  *)
(* A term is a tuple whose head names the operator; ToJson turns it into a JSON array.      *)
EXTENDS Integers, Sequences
EQ(r) == <<"q", r>>                 \* rational constant <<n, d>>
EInt(n) == <<"q", <<n, 1>>>>
EParam(name) == <<"param", name>>
EVar(name) == <<"var", name>>
EAdd(a, b) == <<"add", a, b>>
ESub(a, b) == <<"sub", a, b>>
EMul(a, b) == <<"mul", a, b>>
EDiv(a, b) == <<"div", a, b>>
EGDiv(a, b) == <<"gdiv", a, b>>     \* a / b, 0 when |b| < 1e-15 (published guard)
ENeg(a) == <<"neg", a>>
EAbs(a) == <<"abs", a>>
EPow(a, b) == <<"pow", a, b>>
ESPow(a, e) == <<"spow", a, e>>     \* a |a|^(e-1)
EExp(a) == <<"exp", a>>
ESin(a) == <<"sin", a>>
ECos(a) == <<"cos", a>>
ESqrt(a) == <<"sqrt", a>>
EAtan(a) == <<"atan", a>>
EAcos(a) == <<"acos", a>>
EAtan2(y, x) == <<"atan2", y, x>>
EPolyAt(p, bi, bm) == <<"polyat", p, bi, bm>>   \* Poly2 p evaluated at the environment variables named bi, bm
EGDivPoly(num, den, bi, bm) == <<"gdivpoly", num, den, bi, bm>>   \* guarded quotient of two Poly2
ESum(ts) == <<"sum", ts>>
\* int_0^a hat(u / P) du for the period-P triangle wave hat (0 at whole periods, 1 at half periods; mean 1/2)
EHatInt(a, P) == <<"hatint", a, P>>
=============================================================================
