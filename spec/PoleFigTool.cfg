SPECIFICATION FairSpec
INVARIANT LabelsAreTrue
INVARIANT InclusiveWhenAligned
INVARIANT DescendingToZeroRefused
INVARIANT OverRun
INVARIANT ClippedStartMislabels
INVARIANT DefaultIsPrefix
INVARIANT NoSilentEmpty
INVARIANT Emit
PROPERTY Terminates
CHECK_DEADLOCK FALSE
