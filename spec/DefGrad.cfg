SPECIFICATION Spec
INVARIANT Lemmas
INVARIANT CaseSane
INVARIANT Emit
CHECK_DEADLOCK FALSE
