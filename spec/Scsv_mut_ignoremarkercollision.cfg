SPECIFICATION Spec
CONSTANTS
  Thorough = FALSE
  Mutation = "ignore-marker-collision"
INVARIANT RoundTripLemma
INVARIANT MarkerUnambiguous
INVARIANT DomainNecessary
INVARIANT ValidLemma
INVARIANT NaturalLemma
INVARIANT SingleFaultLemma
INVARIANT TerseLemma
CHECK_DEADLOCK FALSE
