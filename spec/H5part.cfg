SPECIFICATION Spec
CONSTANTS
  MaxP = 3
  StepLists <- QuickStepLists
  Grains = {1, 2}
  PreSets <- QuickPre
INVARIANT ArchiveAtEnd
INVARIANT NoDuplicateMembers
INVARIANT InspectListsAll
INVARIANT LayoutPartition
INVARIANT StepsLemma
INVARIANT ShorterLived
INVARIANT Emit
PROPERTY GrowsOnly
CHECK_DEADLOCK FALSE
