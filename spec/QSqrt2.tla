------------------------------- MODULE QSqrt2 ------------------------------
(* Layer A: the field Q(sqrt 2): numbers a + b*sqrt(2) as <<a, b>> with a, b in Rat.  *)
EXTENDS Rat
S2(a, b) == <<a, b>>
SZ == S2(QZ, QZ)
SOne == S2(QOne, QZ)
SQ(r) == S2(r, QZ)
SAdd(x, y) == S2(QAdd(x[1], y[1]), QAdd(x[2], y[2]))
SNeg(x) == S2(QNeg(x[1]), QNeg(x[2]))
SSub(x, y) == SAdd(x, SNeg(y))
SMul(x, y) == S2(QAdd(QMul(x[1], y[1]), QMul(Q(2), QMul(x[2], y[2]))), QAdd(QMul(x[1], y[2]), QMul(x[2], y[1])))
SScale(r, x) == S2(QMul(r, x[1]), QMul(r, x[2]))
Root2 == S2(QZ, QOne)
InvRoot2 == S2(QZ, QHalf)
\* exact sign of a + b*sqrt2
SSign(x) == LET a == x[1] b == x[2] IN
    IF QSign(a) = 0 THEN QSign(b)
    ELSE IF QSign(b) = 0 THEN QSign(a)
    ELSE IF QSign(a) = QSign(b) THEN QSign(a)
    ELSE LET a2 == QMul(a, a) b2 == QMul(Q(2), QMul(b, b)) IN
         IF a2 = b2 THEN 0 ELSE IF QLt(b2, a2) THEN QSign(a) ELSE QSign(b)
SSumSet(f(_), S) == FoldSet(LAMBDA x, acc : SAdd(f(x), acc), SZ, S)
=============================================================================
