-------------------------------- MODULE Rat --------------------------------
(***************************************************************************)
(* Layer A: exact rational arithmetic for TLC.  A rational is <<n, d>>     *)
(* with d > 0 and gcd(|n|, d) = 1; zero is <<0, 1>>.  TLC integers are     *)
(* 32-bit and overflow is an error, so domains are chosen to keep          *)
(* numerators below ~1e6 (see DESIGN section 4).                           *)
(***************************************************************************)
EXTENDS Integers, Sequences, FiniteSets, TLC, FiniteSetsExt
RECURSIVE GCD(_, _)
GCD(a, b) == IF b = 0 THEN a ELSE GCD(b, a % b)
Abs(x) == IF x < 0 THEN -x ELSE x
QNorm(n, d) == LET g == GCD(Abs(n), Abs(d))
                   s == IF d < 0 THEN -1 ELSE 1
               IN IF n = 0 THEN <<0, 1>> ELSE <<s * (n \div g), s * (d \div g)>>
Q(n) == <<n, 1>>
QZ == <<0, 1>>
QOne == <<1, 1>>
QHalf == <<1, 2>>
\* lcm-based addition: keeps intermediate products small (32-bit integers)
QAdd(a, b) == LET g == GCD(a[2], b[2]) IN QNorm(a[1] * (b[2] \div g) + b[1] * (a[2] \div g), (a[2] \div g) * b[2])
QNeg(a) == <<-a[1], a[2]>>
QSub(a, b) == QAdd(a, QNeg(b))
QMul(a, b) == QNorm(a[1] * b[1], a[2] * b[2])
QDiv(a, b) == QNorm(a[1] * b[2], a[2] * b[1])          \* b # 0
QInv(a) == QNorm(a[2], a[1])
QAbs(a) == <<Abs(a[1]), a[2]>>
QLt(a, b) == a[1] * b[2] < b[1] * a[2]
QLe(a, b) == a[1] * b[2] <= b[1] * a[2]
QSign(a) == IF a[1] > 0 THEN 1 ELSE IF a[1] < 0 THEN -1 ELSE 0
QMax(a, b) == IF QLt(a, b) THEN b ELSE a
QMin(a, b) == IF QLt(a, b) THEN a ELSE b
QIsRat(a) == a[2] > 0 /\ GCD(Abs(a[1]), a[2]) = 1
QSum3(f(_)) == QAdd(QAdd(f(1), f(2)), f(3))
\* sum of f over a finite set (FoldSet, not deep recursion: Java stack)
QSumSet(f(_), S) == FoldSet(LAMBDA x, acc : QAdd(f(x), acc), QZ, S)
\* sum of a sequence of rationals
QSumSeq(s) == FoldSet(LAMBDA k, acc : QAdd(s[k], acc), QZ, DOMAIN s)
=============================================================================
