INIT GenInit
NEXT GenNext
CONSTANTS
  SphB = 2
  TrigB = 5
  PythB = 9
  DiskN = 6
  PoleRots <- QuickRots
  GridSteps = {3, 6, 11, 20}
  DataN = {1, 7, 100, 130}
  BigDataN = {2000, 4633}
  DataClasses <- AllDataClasses
  Weights <- QuickWeights
INVARIANT AzTableLemma
INVARIANT ColatLemma
INVARIANT RoundTripSq
INVARIANT RoundTripTrig
INVARIANT PoleLemma
INVARIANT LambertLemma
INVARIANT LiftLemma
INVARIANT DensityScenarioLemma
INVARIANT Emit
CHECK_DEADLOCK FALSE
