INIT JudgeInit
NEXT JudgeNext
CONSTANTS
  Sizes = {}
INVARIANT Verdict
CHECK_DEADLOCK FALSE
