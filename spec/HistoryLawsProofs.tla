------------------------- MODULE HistoryLawsProofs -------------------------
(* TLAPS proofs of the laws stated in HistoryLaws.tla (tlapm: all obligations proved; see harness/common.py run_tlaps). *)
EXTENDS HistoryLaws, SequenceTheorems, TLAPS
-----------------------------------------------------------------------------
LEMMA ExtendType == ASSUME NEW d \in Records, NEW k \in KeySet, NEW v \in Seq(Snap)
                    PROVE  Extend(d, k, v) \in Records /\ Only(k, v) \in Records
<1>1. PICK K \in SUBSET KeySet : d \in [K -> Seq(Snap)]
  BY DEF Records
<1>2. Extend(d, k, v) \in [K \cup {k} -> Seq(Snap)]
  BY <1>1 DEF Extend
<1>3. Only(k, v) \in [{k} -> Seq(Snap)]
  BY DEF Only
<1>4. K \cup {k} \in SUBSET KeySet /\ {k} \in SUBSET KeySet
  BY <1>1
<1> QED BY <1>2, <1>3, <1>4 DEF Records

LEMMA RecordValue == ASSUME NEW d \in Records, NEW k \in DOMAIN d PROVE d[k] \in Seq(Snap)
  BY DEF Records

THEOREM TypeInvariant == Spec => []TypeOK
<1>1. Init => TypeOK
  <2> SUFFICES ASSUME Init PROVE TypeOK
    OBVIOUS
  <2>1. [x \in {} |-> <<>>] \in [{} -> Seq(Snap)]
    OBVIOUS
  <2>2. [x \in {} |-> <<>>] \in Records
    BY <2>1 DEF Records
  <2> QED BY <2>2 DEF Init, TypeOK
<1>2. TypeOK /\ [Next]_vars => TypeOK'
  <2> SUFFICES ASSUME TypeOK, [Next]_vars PROVE TypeOK'
    OBVIOUS
  <2>1. CASE UNCHANGED vars
    BY <2>1 DEF TypeOK, vars
  <2>2. ASSUME NEW m \in Minerals, NEW x \in Snap, ACreate(m, x) PROVE TypeOK'
    <3>1. <<x>> \in Seq(Snap)
      OBVIOUS
    <3> QED BY <2>2, <3>1 DEF TypeOK, ACreate
  <2>3. ASSUME NEW S \in SUBSET Minerals, NEW news \in [Minerals -> Snap], NEW e \in {"None"} \cup Errs, AAdvance(S, news, e) PROVE TypeOK'
    <3>1. \A m \in Minerals : Append(hist[m], news[m]) \in Seq(Snap)
      BY AppendProperties DEF TypeOK
    <3> QED BY <2>3, <3>1 DEF TypeOK, AAdvance
  <2>4. ASSUME NEW e \in Errs, ARefuse(e) PROVE TypeOK'
    BY <2>4 DEF TypeOK, ARefuse
  <2>5. CASE ANoop
    BY <2>5 DEF TypeOK, ANoop
  <2>6. ASSUME NEW m \in Minerals, NEW f \in Files, NEW k \in KeySet, NEW keep \in BOOLEAN, ASave(m, f, k, keep) PROVE TypeOK'
    <3>1. disk[f] \in Records /\ hist[m] \in Seq(Snap)
      BY DEF TypeOK
    <3>2. Extend(disk[f], k, hist[m]) \in Records /\ Only(k, hist[m]) \in Records
      BY <3>1, ExtendType
    <3> QED BY <2>6, <3>2 DEF TypeOK, ASave
  <2>7. ASSUME NEW m \in Minerals, NEW f \in Files, NEW k \in KeySet, ALoad(m, f, k) PROVE TypeOK'
    <3>1. disk[f] \in Records
      BY DEF TypeOK
    <3>2. disk[f][k] \in Seq(Snap)
      BY <2>7, <3>1, RecordValue DEF ALoad
    <3> QED BY <2>7, <3>2 DEF TypeOK, ALoad
  <2> QED BY <2>1, <2>2, <2>3, <2>4, <2>5, <2>6, <2>7 DEF Next
<1> QED BY <1>1, <1>2, PTL DEF Spec

THEOREM AppendOnly == Spec => [][AppendOnlyStep]_vars
<1>1. TypeOK /\ [Next]_vars => [AppendOnlyStep]_vars
  <2> SUFFICES ASSUME TypeOK, Next PROVE AppendOnlyStep
    BY DEF vars, AppendOnlyStep
  <2>2. ASSUME NEW m \in Minerals, NEW x \in Snap, ACreate(m, x) PROVE AppendOnlyStep
    <3>1. OneMore(<<>>, <<x>>)
      BY DEF OneMore, Prefix
    <3> QED BY <2>2, <3>1 DEF TypeOK, ACreate, AppendOnlyStep
  <2>3. ASSUME NEW S \in SUBSET Minerals, NEW news \in [Minerals -> Snap], NEW e \in {"None"} \cup Errs, AAdvance(S, news, e) PROVE AppendOnlyStep
    <3>1. \A m \in Minerals : OneMore(hist[m], Append(hist[m], news[m]))
      BY AppendProperties DEF TypeOK, OneMore, Prefix
    <3> QED BY <2>3, <3>1 DEF TypeOK, AAdvance, AppendOnlyStep
  <2>4. ASSUME NEW e \in Errs, ARefuse(e) PROVE AppendOnlyStep
    BY <2>4 DEF ARefuse, AppendOnlyStep
  <2>5. CASE ANoop
    BY <2>5 DEF ANoop, AppendOnlyStep
  <2>6. ASSUME NEW m \in Minerals, NEW f \in Files, NEW k \in KeySet, NEW keep \in BOOLEAN, ASave(m, f, k, keep) PROVE AppendOnlyStep
    BY <2>6 DEF ASave, AppendOnlyStep
  <2>7. ASSUME NEW m \in Minerals, NEW f \in Files, NEW k \in KeySet, ALoad(m, f, k) PROVE AppendOnlyStep
    <3>1. disk' = disk /\ OnDisk(disk[f][k])'
      BY <2>7 DEF ALoad, OnDisk
    <3> QED BY <2>7, <3>1 DEF TypeOK, ALoad, AppendOnlyStep, OnDisk
  <2> QED BY <2>2, <2>3, <2>4, <2>5, <2>6, <2>7 DEF Next
<1> QED BY <1>1, TypeInvariant, PTL DEF Spec

THEOREM FailureAtomic == Spec => [][FailureAtomicStep]_vars
<1>1. TypeOK /\ [Next]_vars => [FailureAtomicStep]_vars
  <2> SUFFICES ASSUME TypeOK, Next PROVE FailureAtomicStep
    BY DEF vars, FailureAtomicStep
  <2>2. ASSUME NEW m \in Minerals, NEW x \in Snap, ACreate(m, x) PROVE FailureAtomicStep
    BY <2>2 DEF ACreate, FailureAtomicStep
  <2>3. ASSUME NEW S \in SUBSET Minerals, NEW news \in [Minerals -> Snap], NEW e \in {"None"} \cup Errs, AAdvance(S, news, e) PROVE FailureAtomicStep
    <3>1. \A m \in Minerals : OneMore(hist[m], Append(hist[m], news[m]))
      BY AppendProperties DEF TypeOK, OneMore, Prefix
    <3> QED BY <2>3, <3>1 DEF TypeOK, AAdvance, FailureAtomicStep
  <2>4. ASSUME NEW e \in Errs, ARefuse(e) PROVE FailureAtomicStep
    BY <2>4 DEF ARefuse, FailureAtomicStep
  <2>5. CASE ANoop
    BY <2>5 DEF ANoop, FailureAtomicStep
  <2>6. ASSUME NEW m \in Minerals, NEW f \in Files, NEW k \in KeySet, NEW keep \in BOOLEAN, ASave(m, f, k, keep) PROVE FailureAtomicStep
    BY <2>6 DEF ASave, FailureAtomicStep
  <2>7. ASSUME NEW m \in Minerals, NEW f \in Files, NEW k \in KeySet, ALoad(m, f, k) PROVE FailureAtomicStep
    BY <2>7 DEF ALoad, FailureAtomicStep
  <2> QED BY <2>2, <2>3, <2>4, <2>5, <2>6, <2>7 DEF Next
<1> QED BY <1>1, TypeInvariant, PTL DEF Spec

\* a refused single call (every concrete rejection except the partial bulk update) changes nothing
THEOREM RefusalAtomic == ASSUME NEW e \in Errs, ARefuse(e) PROVE hist' = hist /\ disk' = disk
  BY DEF ARefuse

THEOREM RoundTrip == Spec => [][RoundTripStep]_vars
<1>1. TypeOK /\ [Next]_vars => [RoundTripStep]_vars
  <2> SUFFICES ASSUME TypeOK, Next PROVE RoundTripStep
    BY DEF vars, RoundTripStep
  <2>2. ASSUME NEW m \in Minerals, NEW x \in Snap, ACreate(m, x) PROVE RoundTripStep
    <3>1. OneMore(<<>>, <<x>>)
      BY DEF OneMore, Prefix
    <3> QED BY <2>2, <3>1 DEF TypeOK, ACreate, RoundTripStep
  <2>3. ASSUME NEW S \in SUBSET Minerals, NEW news \in [Minerals -> Snap], NEW e \in {"None"} \cup Errs, AAdvance(S, news, e) PROVE RoundTripStep
    <3>1. \A m \in Minerals : OneMore(hist[m], Append(hist[m], news[m]))
      BY AppendProperties DEF TypeOK, OneMore, Prefix
    <3> QED BY <2>3, <3>1 DEF TypeOK, AAdvance, RoundTripStep
  <2>4. ASSUME NEW e \in Errs, ARefuse(e) PROVE RoundTripStep
    BY <2>4 DEF ARefuse, RoundTripStep
  <2>5. CASE ANoop
    BY <2>5 DEF ANoop, RoundTripStep
  <2>6. ASSUME NEW m \in Minerals, NEW f \in Files, NEW k \in KeySet, NEW keep \in BOOLEAN, ASave(m, f, k, keep) PROVE RoundTripStep
    BY <2>6 DEF ASave, RoundTripStep
  <2>7. ASSUME NEW m \in Minerals, NEW f \in Files, NEW k \in KeySet, ALoad(m, f, k) PROVE RoundTripStep
    <3>1. disk' = disk /\ OnDisk(disk[f][k])'
      BY <2>7 DEF ALoad, OnDisk
    <3> QED BY <2>7, <3>1 DEF TypeOK, ALoad, RoundTripStep, OnDisk
  <2> QED BY <2>2, <2>3, <2>4, <2>5, <2>6, <2>7 DEF Next
<1> QED BY <1>1, TypeInvariant, PTL DEF Spec

THEOREM SaveIsolation == Spec => [][SaveIsolationStep]_vars
<1>1. TypeOK /\ [Next]_vars => [SaveIsolationStep]_vars
  <2> SUFFICES ASSUME TypeOK, Next PROVE SaveIsolationStep
    BY DEF vars, SaveIsolationStep
  <2>1. ASSUME disk' = disk PROVE SaveIsolationStep
    BY <2>1 DEF SaveIsolationStep
  <2>6. ASSUME NEW m \in Minerals, NEW f \in Files, NEW k \in KeySet, NEW keep \in BOOLEAN, ASave(m, f, k, keep) PROVE SaveIsolationStep
    <3> SUFFICES ASSUME NEW g \in Files, NEW j \in DOMAIN disk[g],
                        j \in DOMAIN disk'[g], (DOMAIN disk[g]) \subseteq (DOMAIN disk'[g]), DOMAIN disk'[g] # DOMAIN disk[g]
                 PROVE  disk'[g][j] = disk[g][j]
      BY DEF SaveIsolationStep
    <3>1. CASE g # f
      BY <2>6, <3>1 DEF ASave, TypeOK
    <3>2. CASE g = f /\ keep
      <4>1. disk'[f] = Extend(disk[f], k, hist[m])
        BY <2>6, <3>2 DEF ASave, TypeOK
      <4>2. k \notin DOMAIN disk[f]
        BY <4>1, <3>2 DEF Extend
      <4> QED BY <4>1, <4>2, <3>2 DEF Extend
    <3>3. CASE g = f /\ ~keep
      <4>1. disk'[f] = Only(k, hist[m])
        BY <2>6, <3>3 DEF ASave, TypeOK
      <4>2. DOMAIN disk'[f] = {k}
        BY <4>1 DEF Only
      <4>3. DOMAIN disk[f] = {}
        BY <4>2, <3>3
      <4> QED BY <4>3, <3>3
    <3> QED BY <3>1, <3>2, <3>3
  <2> QED BY <2>1, <2>6 DEF Next, ACreate, AAdvance, ARefuse, ANoop, ALoad
<1> QED BY <1>1, TypeInvariant, PTL DEF Spec

THEOREM DiskNonEmpty == Spec => []DiskRecordsNonEmpty
<1>1. Init => DiskRecordsNonEmpty
  BY DEF Init, DiskRecordsNonEmpty
<1>2. TypeOK /\ DiskRecordsNonEmpty /\ [Next]_vars => DiskRecordsNonEmpty'
  <2> SUFFICES ASSUME TypeOK, DiskRecordsNonEmpty, [Next]_vars PROVE DiskRecordsNonEmpty'
    OBVIOUS
  <2>1. ASSUME disk' = disk PROVE DiskRecordsNonEmpty'
    BY <2>1 DEF DiskRecordsNonEmpty
  <2>6. ASSUME NEW m \in Minerals, NEW f \in Files, NEW k \in KeySet, NEW keep \in BOOLEAN, ASave(m, f, k, keep) PROVE DiskRecordsNonEmpty'
    <3> SUFFICES ASSUME NEW g \in Files, NEW j \in DOMAIN disk'[g] PROVE disk'[g][j] # <<>>
      BY DEF DiskRecordsNonEmpty
    <3>1. CASE g # f
      BY <2>6, <3>1 DEF ASave, TypeOK, DiskRecordsNonEmpty
    <3>2. CASE g = f /\ keep
      <4>1. disk'[f] = Extend(disk[f], k, hist[m])
        BY <2>6, <3>2 DEF ASave, TypeOK
      <4> QED BY <2>6, <4>1, <3>2 DEF Extend, ASave, DiskRecordsNonEmpty
    <3>3. CASE g = f /\ ~keep
      <4>1. disk'[f] = Only(k, hist[m])
        BY <2>6, <3>3 DEF ASave, TypeOK
      <4> QED BY <2>6, <4>1, <3>3 DEF Only, ASave
    <3> QED BY <3>1, <3>2, <3>3
  <2> QED BY <2>1, <2>6 DEF Next, vars, ACreate, AAdvance, ARefuse, ANoop, ALoad
<1> QED BY <1>1, <1>2, TypeInvariant, PTL DEF Spec
=============================================================================
