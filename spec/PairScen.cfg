INIT ScenInit
NEXT ScenNext
CONSTANTS
  K = 0
CHECK_DEADLOCK FALSE
