INIT ScenInit
NEXT ScenNext
CONSTANTS
  Tier = "thorough"
INVARIANT EmitScen
CHECK_DEADLOCK FALSE
