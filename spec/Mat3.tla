-------------------------------- MODULE Mat3 -------------------------------
(***************************************************************************)
(* Layer A: 3-vectors, 3x3 matrices and 3x3x3x3 tensors over Rat, and the  *)
(* exact rotation domain Rots(B) built from integer quaternions.           *)
(* Matrices are functions [I3 -> [I3 -> Rat]]; 4th-order tensors are flat  *)
(* functions over I4 = I3 x I3 x I3 x I3 forced with TLCEval (TLC function *)
(* constructors are lazy and not memoised).                                *)
(***************************************************************************)
EXTENDS Rat
I3 == 1..3
I6 == 1..6
I4 == I3 \X I3 \X I3 \X I3
IntMat(m) == [i \in I3 |-> [j \in I3 |-> Q(m[i][j])]]
MId == [i \in I3 |-> [j \in I3 |-> IF i = j THEN QOne ELSE QZ]]
MZero == [i \in I3 |-> [j \in I3 |-> QZ]]
MT(A) == [i \in I3 |-> [j \in I3 |-> A[j][i]]]
MAdd(A, B) == [i \in I3 |-> [j \in I3 |-> QAdd(A[i][j], B[i][j])]]
MSub(A, B) == [i \in I3 |-> [j \in I3 |-> QSub(A[i][j], B[i][j])]]
MScale(c, A) == [i \in I3 |-> [j \in I3 |-> QMul(c, A[i][j])]]
MMul(A, B) == [i \in I3 |-> [j \in I3 |-> LET f(k) == QMul(A[i][k], B[k][j]) IN QSum3(f)]]
MVec(A, v) == [i \in I3 |-> LET f(k) == QMul(A[i][k], v[k]) IN QSum3(f)]
VDot(u, v) == LET f(k) == QMul(u[k], v[k]) IN QSum3(f)
MSym(L) == [i \in I3 |-> [j \in I3 |-> QMul(QHalf, QAdd(L[i][j], L[j][i]))]]
MSkew(L) == [i \in I3 |-> [j \in I3 |-> QMul(QHalf, QSub(L[i][j], L[j][i]))]]
MTrace(A) == QAdd(QAdd(A[1][1], A[2][2]), A[3][3])
MDet(A) == QAdd(QSub(QMul(A[1][1], QSub(QMul(A[2][2], A[3][3]), QMul(A[2][3], A[3][2]))),
                     QMul(A[1][2], QSub(QMul(A[2][1], A[3][3]), QMul(A[2][3], A[3][1])))),
                QMul(A[1][3], QSub(QMul(A[2][1], A[3][2]), QMul(A[2][2], A[3][1]))))
MEval(A) == TLCEval([i \in I3 |-> TLCEval([j \in I3 |-> A[i][j]])])
IsRotation(R) == MMul(R, MT(R)) = MId /\ MDet(R) = QOne
\* Levi-Civita symbol
Eps(a, b, c) == IF <<a, b, c>> \in {<<1, 2, 3>>, <<2, 3, 1>>, <<3, 1, 2>>} THEN 1
                ELSE IF <<a, b, c>> \in {<<1, 3, 2>>, <<3, 2, 1>>, <<2, 1, 3>>} THEN -1 ELSE 0
\* rotation matrix (1/|q|^2) M(q) of an integer quaternion q = <<w, x, y, z>>
QuatRot(q) == LET w == q[1] x == q[2] y == q[3] z == q[4] N == w*w + x*x + y*y + z*z IN
  [i \in I3 |-> [j \in I3 |->
     QNorm( CASE i=1 /\ j=1 -> w*w+x*x-y*y-z*z [] i=1 /\ j=2 -> 2*(x*y-w*z) [] i=1 /\ j=3 -> 2*(x*z+w*y)
              [] i=2 /\ j=1 -> 2*(x*y+w*z) [] i=2 /\ j=2 -> w*w-x*x+y*y-z*z [] i=2 /\ j=3 -> 2*(y*z-w*x)
              [] i=3 /\ j=1 -> 2*(x*z-w*y) [] i=3 /\ j=2 -> 2*(y*z+w*x) [] i=3 /\ j=3 -> w*w-x*x-y*y+z*z, N)]]
QuatNorm2(q) == q[1]*q[1] + q[2]*q[2] + q[3]*q[3] + q[4]*q[4]
Quats(B, Norms) == {q \in (-B..B) \X (-B..B) \X (-B..B) \X (-B..B) : QuatNorm2(q) \in Norms}
\* the 24 axis-aligned proper rotations (octahedral group): |q|^2 in {1, 2, 4} with entries in -1..1
OctaRots == {QuatRot(q) : q \in Quats(1, {1, 2, 4})}
\* rotations with denominators dividing 3 (|q|^2 = 3) in addition: 40 matrices in all
SmallRots == {QuatRot(q) : q \in Quats(1, {1, 2, 3, 4})}
\* generic rational rotations, denominators 3, 5, 6->3, 7, 9
GenericRots(B) == {QuatRot(q) : q \in Quats(B, {3, 5, 6, 7, 9})}
Rots(B) == OctaRots \cup GenericRots(B)
\* ------------------------------------------------------------------ 4th-order tensors
VoigtIdx(p, q) == IF p = q THEN p ELSE 9 - p - q          \* 1-based Voigt index of the pair (p, q)
SymBasis == {b \in I6 \X I6 : b[1] <= b[2]}
BasisMat6(b) == [i \in I6 |-> [j \in I6 |-> IF (<<i, j>> = b \/ <<j, i>> = b) THEN QOne ELSE QZ]]
ToTensor(M) == TLCEval([x \in I4 |-> M[VoigtIdx(x[1], x[2])][VoigtIdx(x[3], x[4])]])
TR1(T, R) == TLCEval([x \in I4 |-> LET f(a) == QMul(R[x[1]][a], T[<<a, x[2], x[3], x[4]>>]) IN QSum3(f)])
TR2(T, R) == TLCEval([x \in I4 |-> LET f(a) == QMul(R[x[2]][a], T[<<x[1], a, x[3], x[4]>>]) IN QSum3(f)])
TR3(T, R) == TLCEval([x \in I4 |-> LET f(a) == QMul(R[x[3]][a], T[<<x[1], x[2], a, x[4]>>]) IN QSum3(f)])
TR4(T, R) == TLCEval([x \in I4 |-> LET f(a) == QMul(R[x[4]][a], T[<<x[1], x[2], x[3], a>>]) IN QSum3(f)])
\* tensor transformation law  T'_ijkl = R_ia R_jb R_kc R_ld T_abcd
TRotate(T, R) == TR4(TR3(TR2(TR1(T, R), R), R), R)
TFrob2(T) == FoldSet(LAMBDA x, acc : QAdd(QMul(T[x], T[x]), acc), QZ, I4)
TInner(S, T) == FoldSet(LAMBDA x, acc : QAdd(QMul(S[x], T[x]), acc), QZ, I4)
TAdd(S, T) == TLCEval([x \in I4 |-> QAdd(S[x], T[x])])
TScale(c, T) == TLCEval([x \in I4 |-> QMul(c, T[x])])
\* back to the 6x6 Voigt matrix (uses the (1,1),(2,2),(3,3),(2,3),(1,3),(1,2) representatives)
VoigtPair(i) == CASE i = 1 -> <<1, 1>> [] i = 2 -> <<2, 2>> [] i = 3 -> <<3, 3>>
                  [] i = 4 -> <<2, 3>> [] i = 5 -> <<1, 3>> [] i = 6 -> <<1, 2>>
ToVoigt(T) == [i \in I6 |-> [j \in I6 |-> T[<<VoigtPair(i)[1], VoigtPair(i)[2], VoigtPair(j)[1], VoigtPair(j)[2]>>]]]
\* JSON-friendly forms
MatToSeq(A) == [i \in I3 |-> [j \in I3 |-> A[i][j]]]
Mat6ToSeq(M) == [i \in I6 |-> [j \in I6 |-> M[i][j]]]
=============================================================================
