\* C12 generator + lemmas, quick tier
INIT Init
NEXT Next
CONSTANTS
  Tier = "quick"
  Mode = "generate"
INVARIANT LibraryValid
INVARIANT LibraryCount
INVARIANT IsoLemma
INVARIANT ChainLemma
INVARIANT FunctionalLemma
INVARIANT RotatedSymmetric
INVARIANT FrameK
INVARIANT FrameG
INVARIANT FrameAniso
INVARIANT ContractionsCoRotate
INVARIANT EigenAxes
INVARIANT Emit
CHECK_DEADLOCK FALSE
