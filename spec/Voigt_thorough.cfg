\* C10 generator + lemmas, thorough tier
INIT Init
NEXT Next
CONSTANTS
  Tier = "thorough"
  Mode = "generate"
INVARIANT SymmetricResult
INVARIANT ModuliOfAverage
INVARIANT AlignedReturnsC
INVARIANT Lumping
INVARIANT DeviationLocus
INVARIANT BasisModuliK
INVARIANT BasisModuliG
INVARIANT BasisSymmetric
INVARIANT CoRotation
INVARIANT MemoAgrees
INVARIANT RejectionOrderFree
INVARIANT RejectionSane
INVARIANT Emit
CHECK_DEADLOCK FALSE
