INIT CInit
NEXT CNext
CONSTANTS
  MaxPresent = 3
  MaxOmitted = 2
INVARIANT OkImpliesPost
INVARIANT FaultsRejected
INVARIANT DefaultsParse
INVARIANT HeadersCoverKeys
INVARIANT DemandsTotal
INVARIANT ListKeysDecide
INVARIANT ValidShapesParse
INVARIANT SelectionsSimulated
INVARIANT Emit
CHECK_DEADLOCK FALSE
