----------------------------- MODULE GeoHelpers -----------------------------
(***************************************************************************)
(* Extension beyond the listed properties (X05): the small geometric       *)
(* helpers that the flows, the pole figures and the diagnostics are built  *)
(* on, specified exactly where the values are rational or lie in Q(sqrt2). *)
(*                                                                         *)
(*   to_indices2d(h, v)   axis letters (either case) -> index pair; the    *)
(*                        two axes must be different members of X, Y, Z,   *)
(*                        anything else is refused with ValueError.        *)
(*                        Lemmas: the indices are distinct, swapping the   *)
(*                        letters swaps the indices, case does not matter. *)
(*   shirley_concentric_squaredisk(x, y)                                   *)
(*                        concentric square -> disk map.  Radius of the    *)
(*                        image = max(|x|, |y|); angle = (pi/4)(y/x) in    *)
(*                        the |x| >= |y| wedges, pi/2 - (pi/4)(x/y) in the *)
(*                        others.  Exact on the axes and the diagonals     *)
(*                        (Q(sqrt2)); the radius law and the odd symmetry  *)
(*                        (-x, -y) -> -(image) are judged on float points. *)
(*   smallest_angle(v, a [, plane])                                        *)
(*                        angle in [0, 90] degrees between a vector and a  *)
(*                        bidirectional axis, optionally after projecting  *)
(*                        the vector onto a plane.  Exact when the squared *)
(*                        cosine is 0, 1/4, 1/2, 3/4 or 1 (90, 60, 45, 30, *)
(*                        0 degrees).  Lemmas: axis sign does not matter,  *)
(*                        the angle is symmetric in its two arguments.     *)
(* Every case is emitted with its expected outcome and replayed.           *)
(***************************************************************************)
EXTENDS Integers, Sequences, FiniteSets, TLC, Json
VARIABLE case

\* ---------------------------------------------------------------- to_indices2d
Letters == {"X", "Y", "Z", "x", "y", "z", "W", "", "XY"}
Upper(s) == CASE s = "x" -> "X" [] s = "y" -> "Y" [] s = "z" -> "Z" [] OTHER -> s
AxisIdx(s) == CASE Upper(s) = "X" -> 0 [] Upper(s) = "Y" -> 1 [] Upper(s) = "Z" -> 2 [] OTHER -> -1
ToIdx(h, v) == IF AxisIdx(h) >= 0 /\ AxisIdx(v) >= 0 /\ AxisIdx(h) # AxisIdx(v)
               THEN [out |-> "ok", idx |-> <<AxisIdx(h), AxisIdx(v)>>]
               ELSE [out |-> "ValueError", idx |-> <<>>]
IdxLemmas == \A h \in Letters, v \in Letters :
    LET r == ToIdx(h, v) IN
    /\ (r.out = "ok") => (r.idx[1] # r.idx[2] /\ ToIdx(v, h).idx = <<r.idx[2], r.idx[1]>>)
    /\ ToIdx(Upper(h), Upper(v)) = r
    /\ (r.out = "ok") <=> (ToIdx(v, h).out = "ok")

\* ---------------------------------------------------------------- smallest_angle
Vecs == {<<1, 0, 0>>, <<0, 1, 0>>, <<0, 0, -1>>, <<1, 1, 0>>, <<-1, 1, 0>>, <<1, 0, 1>>, <<0, -1, 1>>, <<1, 1, 1>>, <<1, -1, 1>>,
         <<1, 1, 2>>, <<2, 1, 1>>, <<-1, 2, 1>>, <<1, 1, -2>>, <<2, -1, -1>>}
Dot(a, b) == a[1] * b[1] + a[2] * b[2] + a[3] * b[3]
\* squared cosine as a pair <<num, den>> (not reduced)
Cos2(v, a) == <<Dot(v, a) * Dot(v, a), Dot(v, v) * Dot(a, a)>>
\* angle in degrees when the squared cosine is one of the tabulated values, -1 otherwise
AngleOf(c2) == CASE c2[1] = 0 -> 90
                 [] 4 * c2[1] = c2[2] -> 60
                 [] 2 * c2[1] = c2[2] -> 45
                 [] 4 * c2[1] = 3 * c2[2] -> 30
                 [] c2[1] = c2[2] -> 0
                 [] OTHER -> -1
Neg(a) == <<-a[1], -a[2], -a[3]>>
AnglePairs == {p \in Vecs \X Vecs : AngleOf(Cos2(p[1], p[2])) >= 0}
AngleLemmas == \A p \in AnglePairs :
    /\ AngleOf(Cos2(p[1], Neg(p[2]))) = AngleOf(Cos2(p[1], p[2]))       \* the axis is bidirectional
    /\ AngleOf(Cos2(p[2], p[1])) = AngleOf(Cos2(p[1], p[2]))            \* symmetric
    /\ AngleOf(Cos2(p[1], p[2])) \in {0, 30, 45, 60, 90}
\* projection onto a coordinate plane (unit normal e_k): v - e_k (v . e_k)
Proj(v, k) == [i \in 1..3 |-> IF i = k THEN 0 ELSE v[i]]
PlaneCases == {<<p[1], p[2], k>> : p \in Vecs \X Vecs, k \in 1..3} 
PlaneOK(t) == Dot(Proj(t[1], t[3]), Proj(t[1], t[3])) > 0 /\ AngleOf(Cos2(Proj(t[1], t[3]), t[2])) >= 0

\* ---------------------------------------------------------------- Shirley map, exact points
\* points (a, 0), (0, a), (a, a), (a, -a) with a = n / 2; images as [x, y] each <<rational part, sqrt2 part>> in halves:
\* value = (p + q sqrt2) / 4 stored as <<p, q>>
Halves == {-2, -1, 0, 1, 2}
ShirleyExact(nx, ny) ==
    IF ny = 0 THEN [x |-> <<2 * nx, 0>>, y |-> <<0, 0>>]
    ELSE IF nx = 0 THEN [x |-> <<0, 0>>, y |-> <<2 * ny, 0>>]
    ELSE IF nx = ny THEN [x |-> <<0, nx>>, y |-> <<0, nx>>]               \* a sqrt2 / 2 with a = nx / 2  ->  nx sqrt2 / 4
    ELSE [x |-> <<0, nx>>, y |-> <<0, -nx>>]                              \* (a, -a)
ShirleyPts == {p \in Halves \X Halves : p[1] = 0 \/ p[2] = 0 \/ p[1] = p[2] \/ p[1] = -p[2]}
\* radius law on the exact points: x'^2 + y'^2 = max(|x|, |y|)^2   (in sixteenths: (p + q sqrt2)^2 summed)
Abs(n) == IF n < 0 THEN -n ELSE n
Max2(a, b) == IF a >= b THEN a ELSE b
RadiusLemma == \A p \in ShirleyPts :
    LET e == ShirleyExact(p[1], p[2])
        sq(c) == <<c[1] * c[1] + 2 * c[2] * c[2], 2 * c[1] * c[2]>>      \* (p + q r2)^2 = p^2 + 2 q^2 + 2 p q r2
        s == <<sq(e.x)[1] + sq(e.y)[1], sq(e.x)[2] + sq(e.y)[2]>>
        m == Max2(Abs(p[1]), Abs(p[2]))
    IN s = <<4 * m * m, 0>>                                               \* (m / 2)^2 * 16

Init == \/ case \in {[kind |-> "idx", h |-> h, v |-> v, exp |-> ToIdx(h, v)] : h \in Letters, v \in Letters}
        \/ case \in {[kind |-> "angle", v |-> p[1], a |-> p[2], deg |-> AngleOf(Cos2(p[1], p[2]))] : p \in AnglePairs}
        \/ case \in {[kind |-> "angleplane", v |-> t[1], a |-> t[2], k |-> t[3], deg |-> AngleOf(Cos2(Proj(t[1], t[3]), t[2]))] :
                       t \in {u \in PlaneCases : PlaneOK(u)}}
        \/ case \in {[kind |-> "shirley", nx |-> p[1], ny |-> p[2], exp |-> ShirleyExact(p[1], p[2])] : p \in ShirleyPts}
Next == UNCHANGED case
Emit == PrintT(<<"CASE", ToJson(case)>>)
=============================================================================
