INIT Init
NEXT Next
CHECK_DEADLOCK FALSE
CONSTANT NTric = 210
INVARIANT Idempotent
INVARIANT Nested
INVARIANT SelfAdjoint
INVARIANT RankLemma
INVARIANT GroupLemma
INVARIANT GroupAverageLemma
INVARIANT HexLemma
INVARIANT Pythagoras
INVARIANT Emit
