INIT JInit
NEXT JNext
CONSTANTS
  MaxN = 1
  LemmaN = 1
  FrameRots <- OctaRots
  FseRots <- OctaRots
  AuxSel <- AuxQuick
  Pats <- PatsQuick
  StretchVals <- StretchQuick
  TanVals <- TanQuick
INVARIANT JudgeLog
CHECK_DEADLOCK FALSE
