----------------------------- MODULE GbsTrace -----------------------------
(***************************************************************************)
(* Layer C (C09): judges real executions of Mineral.update_orientations    *)
(* recorded by harness/checks/C09.py, one ndjson line per update call,     *)
(* many histories (field tid) per file.                                    *)
(*                                                                         *)
(* WHAT IS RELATED TO WHAT.  Inside one update the code calls apply_gbs    *)
(* after EVERY internal solver step, always with the snapshot at the start *)
(* of the update (self.orientations[-1]) as reference, and writes the      *)
(* result back into the solver vector; the stored snapshot is              *)
(* extract_vars(solver.y) after the last step, which clips and             *)
(* renormalises once more.  The harness replaces the attribute             *)
(* pydrex.minerals._utils.apply_gbs by a recording wrapper and keeps the   *)
(* LAST invocation of each update.  This specification relates             *)
(*   integrated = the arguments (orientations, fractions) of that last     *)
(*                invocation: the clipped, normalised solver state after   *)
(*                the final integration step, before flooring -- the       *)
(*                statement's "integrated volume fraction";                *)
(*   start      = Mineral.orientations[-1] copied by the harness BEFORE    *)
(*                the call -- "the orientation it had at the start of that *)
(*                update" (NOT the wrapper's reference argument: the       *)
(*                statement does not say how the code gets there);         *)
(*   stored     = Mineral.orientations[-1], Mineral.fractions[-1] AFTER    *)
(*                the call -- what the grain "ends the update with".       *)
(* Law: stored = Gbs!ApplyGbs(integrated, chi, start) -- orientations      *)
(* exactly (the statement says "exactly"; clip is the identity on entries  *)
(* of [-1, 1]), volumes up to the rounding of two renormalisations         *)
(* (Tol = 1e-12 relative; observed <= 2e-15).  Earlier invocations of the  *)
(* same update are not judged: their output is what the solver was handed  *)
(* back, not what the update ends with; whether the solver re-reads the    *)
(* vector is an implementation matter the statement is silent about.       *)
(*                                                                         *)
(* The harness only PROJECTS (floats -> booleans / integers); which grain  *)
(* owes which clause, and every threshold, is decided here.  Fields of an  *)
(* "upd" line (g = 1..n):                                                  *)
(*   tid, k       history id, 1-based index of the update in the history   *)
(*   n, chin/chid grain count, chi = chin/chid                             *)
(*   hooked       the wrapper saw an apply_gbs call during this update;    *)
(*                if FALSE (attribute path gone after a refactor) only the *)
(*                snapshot clauses are judged -- never a violation         *)
(*   below[g]     f_integrated[g] < chi/n            (float comparison)    *)
(*   rin[g], rst[g] dense ranks of f_integrated / f_stored (1 = smallest,  *)
(*                equal volumes share a rank); rthr = number of distinct   *)
(*                integrated volumes below chi/n (rank of the threshold)   *)
(*   masked[g]    stored orientation == start orientation, all 9 entries   *)
(*   kept[g]      stored orientation == integrated orientation, all 9      *)
(*                (or == its clip to [-1, 1]: storing clips, C01)          *)
(*   fdev[g]      |f_stored[g] S / (chi/n) - 1|   in 1e-15, S = the sum    *)
(*                before renormalisation = sum of the integrated volumes   *)
(*                with those below chi/n replaced by chi/n                 *)
(*   rdev[g]      |f_stored[g] S / f_integrated[g] - 1|   in 1e-15         *)
(*   sumdev       |sum f_stored - 1| in 1e-15                              *)
(*   minshort     max(0, 1 - min f_stored / (chi/(n(1+chi)))) in 1e-15     *)
(*                (for chi = 0: max(0, -min f_stored) in 1e-15)            *)
(* Clauses (one verdict <<"REJECT", tid, line, clause, first grain,        *)
(* number of grains>> per failed clause and line; the run always continues *)
(* to <<"DONE", lines, verdicts, hooked lines>>):                          *)
(*   floored-grain-rotated          below  and not masked                  *)
(*   unfloored-grain-not-integrated not below and not kept                 *)
(*       (together: mask <=> below, on orientations)                       *)
(*   floor-volume                   below  and fdev > Tol                  *)
(*   unfloored-volume               not below and rdev > Tol (ratios among *)
(*                                  unfloored grains + renormalisation)    *)
(*   sum-not-1                      sumdev > Tol                           *)
(*   minimum-below-bound            minshort > Tol                         *)
(*   order-inverted                 rin[g] < rin[h] and rst[g] > rst[h]    *)
(*   chi0-frozen-or-floored         chi = 0 and some grain not kept or     *)
(*                                  with rdev > Tol                        *)
(*   zero-rate-floored-grain-rotated, zero-rate-floor-not-applied          *)
(*                                  updates in a regime without volume     *)
(*                                  rates, judged from the snapshots alone *)
(*                                  (see ZeroRateVerdicts)                 *)
(* Clauses starting with "trace-" blame the recorder, not PyDRex.          *)
(*                                                                         *)
(* SECOND USE (cfg GbsScen / GbsScen_thorough): the scenario classes of    *)
(* the recorded histories are enumerated here, not in Python:              *)
(* (phase, fabric) x chi x M* x n_grains x flow x initial texture, history *)
(* length 10 / 15 / 20 updates of strain 0.2.  "quick" takes the classes   *)
(* whose index sum is divisible by 6 (every value of every factor and      *)
(* every chi x M* x n_grains triple occurs), "thorough" takes all.         *)
(***************************************************************************)
EXTENDS Integers, Sequences, FiniteSets, FiniteSetsExt, TLC, Json, IOUtils

CONSTANT Tier    \* "quick" | "thorough" (scenario generator only)

TraceLog == ndJsonDeserialize(IOEnv.TRACE_FILE)
NLines == Len(TraceLog)

Tol == 1000      \* 1e-12 relative, in the 1e-15 units of the measures

VARIABLES l,      \* next line to consume
          cur,    \* [tid, k] of the line consumed last (generator: the scenario)
          last,   \* verdicts of the line consumed last
          nbad,   \* verdicts so far
          nhook   \* hooked lines so far
tvars == <<l, cur, last, nbad, nhook>>

\* ------------------------------------------------------------------ the law
G(e) == 1..e.n
Has(e, k) == k \in DOMAIN e
SeqOfLen(e, k, n) == Has(e, k) /\ Len(e[k]) = n

SnapshotFields(e) == /\ \A k \in {"tid", "k", "n", "chin", "chid", "hooked", "sumdev", "minshort"} : Has(e, k)
                     /\ e.n >= 1 /\ e.chid >= 1 /\ e.chin >= 0 /\ e.chin < e.chid
                     /\ e.sumdev >= 0 /\ e.minshort >= 0
HookFields(e) == /\ \A k \in {"below", "masked", "kept", "fdev", "rdev", "rin", "rst"} : SeqOfLen(e, k, e.n)
                 /\ Has(e, "rthr")
                 /\ \A g \in G(e) : e.fdev[g] >= 0 /\ e.rdev[g] >= 0 /\ e.rin[g] >= 1 /\ e.rst[g] >= 1

\* clause over a set of offending grains: <<clause, first grain, how many>>
Over(clause, B) == IF B = {} THEN <<>> ELSE <<<<clause, Min(B), Cardinality(B)>>>>

\* Updates whose volume RATES are zero by definition (the two viscosity-bound regimes and the diffusion regime;
\* C07): the integrated volume of a grain is the volume it started the update with, so which grains are under
\* the threshold is known from the two snapshots alone - no observation inside the solver is needed:
\*   zero-rate-floored-grain-rotated   a grain that started under the threshold does not end with exactly the
\*                                     orientation it started with
\*   zero-rate-floor-not-applied       a grain g that started under the threshold was not lifted to the floor:
\*                                     flooring (at least once) and renormalising gives
\*                                     f'[g] / f'[h] >= (chi/n) / f[h] for every grain h that started above it;
\*                                     zlift[g] is the worst shortfall of that ratio in 1e-15 units
ZeroRateFields(e) == /\ \A k \in {"zbelow", "zfrozen", "zlift"} : SeqOfLen(e, k, e.n)
                     /\ \A g \in G(e) : e.zlift[g] >= 0
ZeroRateVerdicts(e) ==
    IF ~Has(e, "zbelow") THEN <<>>
    ELSE IF ~ZeroRateFields(e) THEN <<<<"trace-malformed-line", 0, 1>>>>
    ELSE   Over("zero-rate-floored-grain-rotated", {x \in G(e) : e.zbelow[x] /\ ~e.zfrozen[x]})
        \o Over("zero-rate-floor-not-applied", {x \in G(e) : e.zbelow[x] /\ e.zlift[x] > Tol})

SnapshotVerdicts(e) ==
       (IF e.sumdev > Tol THEN <<<<"sum-not-1", 0, 1>>>> ELSE <<>>)
    \o (IF e.minshort > Tol THEN <<<<"minimum-below-bound", 0, 1>>>> ELSE <<>>)
    \o ZeroRateVerdicts(e)

HookVerdicts(e) ==
    LET g == G(e) IN
    IF \E x \in g : e.below[x] # (e.rin[x] <= e.rthr)
        THEN <<<<"trace-below-inconsistent-with-ranks", 0, 1>>>>
    ELSE IF e.chin = 0 /\ \E x \in g : e.below[x]
        THEN <<<<"trace-below-with-chi-zero", 0, 1>>>>
    ELSE   Over("floored-grain-rotated", {x \in g : e.below[x] /\ ~e.masked[x]})
        \o Over("unfloored-grain-not-integrated", {x \in g : ~e.below[x] /\ ~e.kept[x]})
        \o Over("floor-volume", {x \in g : e.below[x] /\ e.fdev[x] > Tol})
        \o Over("unfloored-volume", {x \in g : ~e.below[x] /\ e.rdev[x] > Tol})
        \o Over("order-inverted", {x \in g : \E y \in g : e.rin[x] < e.rin[y] /\ e.rst[x] > e.rst[y]})
        \o (IF e.chin = 0
            THEN Over("chi0-frozen-or-floored", {x \in g : ~e.kept[x] \/ e.rdev[x] > Tol})
            ELSE <<>>)

LineVerdicts(e) ==
    IF ~(Has(e, "ev") /\ e.ev = "upd") THEN <<<<"trace-unknown-event", 0, 1>>>>
    ELSE IF ~SnapshotFields(e) THEN <<<<"trace-malformed-line", 0, 1>>>>
    ELSE (IF (IF e.tid = cur.tid THEN e.k = cur.k + 1 ELSE e.k = 1) THEN <<>>
          ELSE <<<<"trace-update-index", 0, 1>>>>)
      \o SnapshotVerdicts(e)
      \o (IF ~e.hooked THEN <<>>
          ELSE IF ~HookFields(e) THEN <<<<"trace-malformed-line", 0, 1>>>>
          ELSE HookVerdicts(e))

\* ------------------------------------------------------------------ trace machine
TInit == l = 1 /\ cur = [tid |-> -1, k |-> 0] /\ last = <<>> /\ nbad = 0 /\ nhook = 0

Consume ==
    /\ l <= NLines
    /\ l' = l + 1
    /\ LET e == TraceLog[l]
           vs == LineVerdicts(e)
           tid == IF Has(e, "tid") THEN e.tid ELSE -1 IN
       /\ last' = [i \in 1..Len(vs) |-> <<tid, l, vs[i][1], vs[i][2], vs[i][3]>>]
       /\ nbad' = nbad + Len(vs)
       /\ cur' = [tid |-> tid, k |-> IF Has(e, "k") THEN e.k ELSE 0]
       /\ nhook' = nhook + (IF Has(e, "hooked") /\ e.hooked THEN 1 ELSE 0)

TNext == Consume

Report == /\ (IF last # <<>> THEN \A i \in 1..Len(last) :
                  PrintT(<<"REJECT", last[i][1], last[i][2], last[i][3], last[i][4], last[i][5]>>)
              ELSE TRUE)
          /\ (IF l = NLines + 1 THEN PrintT(<<"DONE", NLines, nbad, nhook>>) ELSE TRUE)

\* ------------------------------------------------------------------ scenario classes
FabSeq == <<[phase |-> 0, fabric |-> 0], [phase |-> 0, fabric |-> 1], [phase |-> 0, fabric |-> 2],
            [phase |-> 0, fabric |-> 3], [phase |-> 0, fabric |-> 4], [phase |-> 1, fabric |-> 5]>>
ChiSeq == <<0, 3, 9>>            \* tenths
MobSeq == <<50, 125, 200>>
NSeq == <<8, 50>>
TexSeq == <<"random", "nonuniform">>
FlowSeq == IF Tier = "thorough" THEN <<"ss_xz", "pure_xy", "gen3d", "ss_yx", "axi_c", "tdep">>
           ELSE <<"ss_xz", "pure_xy", "gen3d">>

\* regime programme of a history: the first 3/5 of the updates shrink grains through the threshold in a
\* dislocation-type regime, the remaining ones run in the named regime (4 = stay in matrix_dislocation)
\* (code 40: stay in matrix_dislocation but with boundary mobility M* = 0 - volume rates are zero there too, while the
\* unfloored grains keep rotating)
RegSeq == <<<<4, 4>>, <<4, 1>>, <<4, 7>>, <<6, 0>>, <<4, 40>>>>
Selected(a, b, m, d, t, f) == Tier = "thorough" \/ (a + b + m + d + t + f) % 6 = 0

ScenInit == /\ l = 0 /\ last = <<>> /\ nbad = 0 /\ nhook = 0
            /\ \E a \in DOMAIN FabSeq, b \in DOMAIN ChiSeq, m \in DOMAIN MobSeq, d \in DOMAIN NSeq,
                  t \in DOMAIN TexSeq, f \in DOMAIN FlowSeq :
                 /\ Selected(a, b, m, d, t, f)
                 /\ cur = [phase |-> FabSeq[a].phase, fabric |-> FabSeq[a].fabric, chi |-> ChiSeq[b],
                           M |-> MobSeq[m], n |-> NSeq[d], tex |-> TexSeq[t], fl |-> FlowSeq[f],
                           nupd |-> 10 + 5 * ((a + b + m) % 3),
                           rp |-> RegSeq[1 + ((a + 2 * b + m + d + t) % 5)],
                           id |-> <<a, b, m, d, t, f>>]
ScenNext == UNCHANGED tvars
EmitScen == PrintT(<<"SCEN", ToJson(cur)>>)
=============================================================================
