INIT ScenInit
NEXT ScenNext
CONSTANTS
  Sizes = {1, 2, 50, 128, 1000, 1024, 3840, 12345, 65536, 99999, 100000}
INVARIANT EmitScen
CHECK_DEADLOCK FALSE
