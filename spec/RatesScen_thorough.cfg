INIT ScenInit
NEXT ScenNext
CONSTANTS
  Sizes = {1, 2, 50, 1000, 12345, 99999, 100000}
INVARIANT EmitScen
CHECK_DEADLOCK FALSE
