INIT ScenInit
NEXT ScenNext
CONSTANTS
  K = 320
INVARIANT EmitScen
CHECK_DEADLOCK FALSE
