INIT ScenInit
NEXT ScenNext
CONSTANTS
  K = 600
INVARIANT EmitScen
CHECK_DEADLOCK FALSE
