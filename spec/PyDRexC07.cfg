SPECIFICATION C07Spec
CONSTANTS
  Minerals = {a, b}
  Files = {f1}
  Postfixes = {"p"}
  Configs <- C07Configs
  Seeds = {1, 2}
  Textures = {"random", "single", "clustered", "girdle"}
  Flows = {"zero", "ss_xz", "ss_yx", "pure_xy", "axi_c", "gen3d", "trace"}
  Pars <- C07Pars
  Callbacks = {0, 7, 4, 3, 9, 102, 105, 108}
  MaxUpd = 6
  MaxOps = 8
INVARIANT EmitAtEnd
CHECK_DEADLOCK FALSE
