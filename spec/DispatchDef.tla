---------------------------- MODULE DispatchDef ----------------------------
(* Variable-free decision operators shared by the Layer-B machine and the C07 table. *)
EXTENDS Integers, Sequences
NoCb == -99
\* ---------------------------------------------------------------- dispatch (C07)
Accepted(r)    == r \in {0, 1, 4, 6, 7}
NullReg(r)     == r \in {0, 7}
TextureReg(r)  == r \in {4, 6}
DiffusionReg(r) == r = 1
ValidPair(p, f) == (p = 0 /\ f \in 0..4) \/ (p = 1 /\ f = 5)
InAsm(p, a)    == \E k \in 1..Len(a) : a[k] = p
\* Outcome class of one update call for a mineral with configuration c under regime r
\* (r is the callback's regime when a callback is supplied, else c.regime).
\*   "absent"  : the mineral's phase is not in the assemblage     -> RuntimeError
\*   "reject"  : unsupported / out-of-range regime, or a texture-forming regime asked to
\*               use an invalid (phase, fabric) pair                -> ValueError
\*   "null"    : viscosity-bound regimes: no texture-forming mechanism
\*   "diffusion", "texture" : accepted
\*   "either"  : a regime that never consults the fabric (null, diffusion) asked to update a
\*               mineral whose (phase, fabric) pair is invalid: the documentation does not say
\*               whether that is refused, so both outcomes are allowed (see DESIGN, C07)
Dispatch(c, r, par) ==
    IF ~InAsm(c.phase, par.asm) THEN "absent"
    ELSE IF ~Accepted(r) THEN "reject"
    ELSE IF ~ValidPair(c.phase, c.fabric) THEN (IF TextureReg(r) THEN "reject" ELSE "either")
    ELSE IF NullReg(r) THEN "null"
    ELSE IF DiffusionReg(r) THEN "diffusion"
    ELSE "texture"
\* the same decision at the level of the rate kernel (pydrex.core.derivatives), which has
\* no assemblage: outcome for (regime, phase, fabric)
KernelDispatch(r, p, f) ==
    IF ~Accepted(r) THEN "reject"
    ELSE IF ~ValidPair(p, f) THEN (IF TextureReg(r) THEN "reject" ELSE "either")
    ELSE IF NullReg(r) THEN "null"
    ELSE IF DiffusionReg(r) THEN "diffusion"
    ELSE "texture"
OkClasses == {"null", "diffusion", "texture", "either"}
RejClasses == {"reject", "either"}

\* own phase fraction in tenths
Phi(p, par) == IF Len(par.asm) = 1 THEN 10 ELSE IF p = 0 THEN par.phiOl ELSE 10 - par.phiOl

=============================================================================
