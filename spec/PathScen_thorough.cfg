INIT ScenInit
NEXT ScenNext
CONSTANT Tier = "thorough"
INVARIANT ScenInSpace
INVARIANT ScenEmit
CHECK_DEADLOCK FALSE
