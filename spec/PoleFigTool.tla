---------------------------- MODULE PoleFigTool ----------------------------
(***************************************************************************)
(* Extension beyond the listed properties (X08): the pole-figure command   *)
(* line tool (pydrex.cli.PoleFigureVisualiser) as a state machine.         *)
(*                                                                         *)
(*   Parse    the `--range start:stop:step` text becomes the label range   *)
(*            range(start, stop + step, step) ("stop-inclusive"); a text   *)
(*            that is not three integers, or a zero step, is refused       *)
(*   Load     Mineral.from_file(input, postfix): the archive member set of *)
(*            that postfix; a member set the archive does not hold is the  *)
(*            named deviation LoadMissing (KeyError leaves the tool - it   *)
(*            is not one of the exception classes the tool reports)        *)
(*   Select   without a range: every snapshot, at most the first 25; with  *)
(*            one: the PYTHON SLICE history[start : stop + step : step]    *)
(*            (PySlice below is CPython's PySlice_AdjustIndices), which    *)
(*            clips at the ends of the history while the label range does  *)
(*            not                                                          *)
(*   Strains  optional strain column, cut by the same slice                *)
(*   Plot     visualisation.polefigures refuses (ValueError, reported by   *)
(*            the tool) unless #stacks = #labels (= #strains); an empty    *)
(*            selection is refused earlier by resample_orientations       *)
(*                                                                         *)
(* What a user relies on, checked by TLC over every world of the           *)
(* configuration:                                                          *)
(*   LabelsAreTrue     in every figure that is drawn, the j-th column      *)
(*                     shows snapshot number labels[j] of the REQUESTED    *)
(*                     mineral, and the j-th strain is that snapshot's     *)
(*   InclusiveWhenAligned  when stop = start + k step lies in the history  *)
(*                     the figure has k + 1 columns ending at `stop`       *)
(*   DefaultIsPrefix   without a range the columns are 0 .. min(n, 25) - 1 *)
(*   NoSilentEmpty     a run ends in exactly one of drawn / reported /     *)
(*                     KeyError; nothing is drawn with zero columns        *)
(* Named deviation (OverRun): when (stop - start) is not a multiple of     *)
(* step the last column lies BEYOND the requested stop (range(0, 5 + 2, 2) *)
(* = 0, 2, 4, 6); the specification records it, the harness replays it.    *)
(* Every terminal state is emitted and replayed on a real archive through  *)
(* the real tool.                                                          *)
(***************************************************************************)
EXTENDS Integers, Sequences, FiniteSets, TLC, Json
VARIABLES w, stage, labels, sel, strainsSel, outcome

vars == <<w, stage, labels, sel, strainsSel, outcome>>

\* ---------------------------------------------------------------- Python semantics
\* len(range(a, b, c)), c # 0
RangeLen(a, b, c) == IF c > 0 THEN (IF a < b THEN (b - a - 1) \div c + 1 ELSE 0)
                             ELSE (IF b < a THEN (a - b - 1) \div (-c) + 1 ELSE 0)
RangeSeq(a, b, c) == [j \in 1..RangeLen(a, b, c) |-> a + (j - 1) * c]
\* indices visited by seq[a:b:c] on a sequence of length n (0-based), c # 0: PySlice_AdjustIndices
Adj(x, n, c) == IF x < 0 THEN (IF x + n < 0 THEN (IF c < 0 THEN -1 ELSE 0) ELSE x + n)
                         ELSE (IF x >= n THEN (IF c < 0 THEN n - 1 ELSE n) ELSE x)
PySlice(n, a, b, c) == RangeSeq(Adj(a, n, c), Adj(b, n, c), c)

\* ---------------------------------------------------------------- worlds
\* archive kinds: which member sets the archive holds; every member set has its own history length
Kinds == {"whole", "ab", "whole_a"}
Holds(kind) == CASE kind = "whole" -> {"none"} [] kind = "ab" -> {"a", "b"} [] kind = "whole_a" -> {"none", "a"}
Lens == {1, 2, 3, 5, 26}
Starts == 0..6
Stops == 0..6
Steps == {-2, -1, 0, 1, 2, 3}
BadTexts == {"1:2", "a:b:c", "1:2:3:4", "", "1.5:2:1"}
Ranges == {[k |-> "none"]} \cup {[k |-> "bad", text |-> t] : t \in BadTexts}
            \cup {[k |-> "ok", start |-> a, stop |-> b, step |-> c] : a \in Starts, b \in Stops, c \in Steps}
\* the other member set of the archive (if any) has a history one snapshot longer, so a mix-up shows in the lengths too
Worlds == {[kind |-> kd, postfix |-> pf, n |-> n, range |-> r, scsv |-> sc] :
             kd \in Kinds, pf \in {"none", "a", "b"}, n \in Lens, r \in Ranges, sc \in {"none", "full", "short"}}
\* the strain file of a world: one row per snapshot ("full") or one row fewer ("short")
StrainRows(x) == IF x.scsv = "full" THEN x.n ELSE x.n - 1

Init == /\ w \in Worlds
        /\ stage = "parse" /\ labels = <<>> /\ sel = <<>> /\ strainsSel = <<>> /\ outcome = "running"

ParseOk == /\ stage = "parse" /\ w.range.k # "bad"
           /\ ~(w.range.k = "ok" /\ w.range.step = 0)
           /\ stage' = "load" /\ UNCHANGED <<w, labels, sel, strainsSel, outcome>>
ParseRefused == /\ stage = "parse"
                /\ \/ w.range.k = "bad"
                   \/ w.range.k = "ok" /\ w.range.step = 0          \* range() arg 3 must not be zero
                /\ stage' = "done" /\ outcome' = "reported" /\ UNCHANGED <<w, labels, sel, strainsSel>>
Load == /\ stage = "load" /\ w.postfix \in Holds(w.kind)
        /\ stage' = "select" /\ UNCHANGED <<w, labels, sel, strainsSel, outcome>>
LoadMissing == /\ stage = "load" /\ w.postfix \notin Holds(w.kind)
               /\ stage' = "done" /\ outcome' = "KeyError" /\ UNCHANGED <<w, labels, sel, strainsSel>>
Select == /\ stage = "select"
          /\ IF w.range.k = "none"
             THEN LET m == IF w.n > 25 THEN 25 ELSE w.n IN
                  /\ labels' = RangeSeq(0, m, 1)
                  /\ sel' = PySlice(w.n, 0, m, 1)
             ELSE LET r == w.range IN
                  /\ labels' = RangeSeq(r.start, r.stop + r.step, r.step)
                  /\ sel' = PySlice(w.n, r.start, r.stop + r.step, r.step)
          /\ stage' = "resample" /\ UNCHANGED <<w, strainsSel, outcome>>
\* resample_orientations refuses an empty stack (its shape test); otherwise one resampled stack per selected snapshot
ResampleRefused == /\ stage = "resample" /\ sel = <<>>
                   /\ stage' = "done" /\ outcome' = "reported" /\ UNCHANGED <<w, labels, sel, strainsSel>>
Resample == /\ stage = "resample" /\ sel # <<>>
            /\ stage' = "strains" /\ UNCHANGED <<w, labels, sel, strainsSel, outcome>>
Strains == /\ stage = "strains"
           /\ strainsSel' = IF w.scsv = "none" THEN <<>>
                            ELSE IF w.range.k = "none" THEN PySlice(StrainRows(w), 0, Len(labels), 1)
                            ELSE PySlice(StrainRows(w), w.range.start, w.range.stop + w.range.step, w.range.step)
           /\ stage' = "plot" /\ UNCHANGED <<w, labels, sel, outcome>>
PlotOk == /\ stage = "plot" /\ Len(sel) = Len(labels) /\ (w.scsv # "none" => Len(strainsSel) = Len(labels))
          /\ stage' = "done" /\ outcome' = "drawn" /\ UNCHANGED <<w, labels, sel, strainsSel>>
PlotRefused == /\ stage = "plot" /\ ~(Len(sel) = Len(labels) /\ (w.scsv # "none" => Len(strainsSel) = Len(labels)))
               /\ stage' = "done" /\ outcome' = "reported" /\ UNCHANGED <<w, labels, sel, strainsSel>>
Done == stage = "done" /\ UNCHANGED vars
Next == ParseOk \/ ParseRefused \/ Load \/ LoadMissing \/ Select \/ ResampleRefused \/ Resample \/ Strains \/ PlotOk \/ PlotRefused \/ Done
Spec == Init /\ [][Next]_vars
FairSpec == Spec /\ WF_vars(Next)

\* ---------------------------------------------------------------- what the user relies on
Drawn == stage = "done" /\ outcome = "drawn"
InHistory == w.range.k = "ok" => w.range.start < w.n             \* the request starts at a snapshot that exists
LabelsAreTrue == Drawn /\ InHistory =>
    /\ sel = labels                                                  \* column j shows snapshot labels[j]
    /\ \A j \in 1..Len(sel) : sel[j] \in 0..(w.n - 1)
    /\ w.scsv # "none" /\ (w.range.k = "ok" => w.range.start < StrainRows(w)) => strainsSel = labels
                                                                     \* ... and carries that snapshot's strain row (the
                                                                     \* clipped-start deviation below applies to a strain
                                                                     \* file shorter than the request as well)
InclusiveWhenAligned == stage = "done" /\ w.range.k = "ok" /\ w.postfix \in Holds(w.kind) /\ w.scsv # "short" =>
    LET r == w.range IN
    (r.step # 0 /\ r.start < w.n /\ r.stop < w.n /\ (r.stop - r.start) % (IF r.step > 0 THEN r.step ELSE -r.step) = 0
        /\ (r.stop - r.start) * r.step >= 0 /\ ~(r.step < 0 /\ r.stop + r.step < 0 /\ r.stop + r.step + w.n >= 0))
      => /\ outcome = "drawn"
         /\ sel[Len(sel)] = r.stop /\ sel[1] = r.start
         /\ Len(sel) = (r.stop - r.start) \div r.step + 1
\* named deviation: a descending request down to snapshot 0 is refused whenever stop + step, negative, still names a
\* snapshot counted from the END of the history (-1 is "the last one" to a slice); it is drawn only when the history is
\* shorter than |stop + step|
DescendingToZeroRefused == stage = "done" /\ w.range.k = "ok" /\ w.postfix \in Holds(w.kind) =>
    (w.range.step < 0 /\ w.range.stop + w.range.step < 0 /\ w.range.stop + w.range.step + w.n >= 0 /\ w.range.start < w.n
        => outcome = "reported")
\* named deviation: the last column overshoots a stop the step does not hit
OverRun == Drawn /\ w.range.k = "ok" /\ w.range.step > 0 /\ (w.range.stop - w.range.start) % w.range.step # 0
    => sel[Len(sel)] > w.range.stop
\* named deviation (found by TLC on the first run of this model): a descending request that starts BEYOND the history is
\* not refused when the clipped slice happens to have as many members as the label range - the figure then shows the
\* LAST snapshot under the label of a snapshot that does not exist (n = 2, `-r 2:2:-2`: label 2, snapshot 1)
ClippedStartMislabels == Drawn /\ ~InHistory => /\ w.range.step < 0 /\ sel[1] = w.n - 1 /\ labels[1] = w.range.start
                                                /\ sel # labels
DefaultIsPrefix == Drawn /\ w.range.k = "none" => sel = RangeSeq(0, IF w.n > 25 THEN 25 ELSE w.n, 1)
NoSilentEmpty == /\ stage = "done" => outcome \in {"drawn", "reported", "KeyError"}
                 /\ Drawn => Len(sel) >= 1
                 /\ stage # "done" => outcome = "running"
Terminates == <>(stage = "done")

Emit == stage = "done" => PrintT(<<"CASE", ToJson([w |-> w, outcome |-> outcome, labels |-> labels, sel |-> sel, strains |-> strainsSel])>>)
=============================================================================
