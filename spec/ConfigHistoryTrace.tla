------------------------ MODULE ConfigHistoryTrace ------------------------
(* Trace validation for ConfigHistory.tla (code -> spec).  The state carried along the log is ConfigHistory's `known`  *)
(* (first digest per file) and `scribbled`, restarted whenever the log moves on to another process (tid); the step for  *)
(* a "Parse" line is ConfigHistory!Parse with Pure[f] bound to the digest first recorded for f.                          *)
EXTENDS Integers, Sequences, FiniteSets, TLC, Json, IOUtils
TraceLog == ndJsonDeserialize(IOEnv.TRACE_FILE)
VARIABLE st
TInit == st = [l |-> 1, tid |-> -1, known |-> <<>>, scr |-> {}]
TNext == /\ st.l <= Len(TraceLog)
         /\ LET e == TraceLog[st.l]
                base == IF e.tid = st.tid THEN st ELSE [l |-> st.l, tid |-> e.tid, known |-> <<>>, scr |-> {}]   \* a new process
            IN st' = IF e.ev = "Scribble" THEN [base EXCEPT !.l = st.l + 1, !.scr = @ \cup {e.file}]
                     ELSE IF e.file \in DOMAIN base.known THEN [base EXCEPT !.l = st.l + 1]
                     ELSE [base EXCEPT !.l = st.l + 1, !.known = @ @@ (e.file :> e.dig)]
Verdict == IF st.l > 1
           THEN LET e == TraceLog[st.l - 1] IN
                (IF e.ev = "Parse" /\ e.file \in DOMAIN st.known /\ st.known[e.file] # e.dig
                 THEN PrintT(<<"REJECT", ToJson([l |-> st.l - 1, tid |-> e.tid, file |-> e.file, clause |-> "parse-depends-on-history",
                                                 afterScribble |-> st.scr # {}])>>)
                 ELSE TRUE)
                /\ (IF st.l = Len(TraceLog) + 1 THEN PrintT(<<"DONE", Len(TraceLog)>>) ELSE TRUE)
           ELSE TRUE
=============================================================================
